"""Component: partial cognate detection (lingpy.compare.partial) - generators, implementation
runner with the aligner recorded or substituted from outside, Gallina case rendering.  Used by C16.

Two kinds of cases:
  * "real":  the real aligner (calign.align_pair, method 'sca') runs; every call and its result
             is recorded (floats as exact Fractions) and replayed into the model.
  * "stub":  the aligner is substituted by a deterministic function of its arguments with
             values on a dyadic grid (and, rarely, a ZeroDivisionError), so that every float
             operation of the surrounding code is exact even when values tie.
and a separate component `derive` for add_cognate_ids on arbitrary source id lists.
"""
import functools
import types
import zlib
from fractions import Fraction as F

from ..lib import coqlit as L

IMPORTS = ("From LV Require Import Common.Cases Cluster.Flat Cluster.FlatQ Cognates.Components "
           "Cognates.Partial Cognates.PartialExec.")

CONS = list("ptkmnslrbdgh")
VOW = list("aeiou")
METHODS_STUB = ["upgma", "single", "complete", "ward"]
METHODS_REAL = ["upgma", "single", "complete"]
COQ_METH = {"upgma": "Upgma", "single": "Single", "complete": "Complete", "ward": "Upgma"}
GRIDS = {
    "eighths": [F(k, 8) for k in range(0, 9)],
    "quarters": [F(k, 4) for k in range(0, 6)],
    "coarse": [F(0), F(1, 2), F(1)],
    "ties": [F(1, 4), F(1, 2)],
    "low": [F(0), F(1, 8), F(1, 4), F(3, 8)],
}
THR_STUB = [F(3, 10), F(45, 100), F(1, 2), F(1, 4), F(3, 4), F(1), F(0), F(55, 100), F(1, 8), F(7, 20), F(3, 8)]
THR_REAL = [0.45, 0.3, 0.55, 0.6, 0.2, 0.75, 0.4, 0.5, 0.35]


# The documented defaults of Partial.partial_cluster (signature and its kw dict) and of
# Partial.__init__ / add_cognate_ids.  A case may OMIT optional keywords ("omit"); the call then
# relies on the library's own defaults while the model is given these documented values.
# (cluster_method cannot be omitted here: its default 'infomap' needs igraph, which is absent.)
DOC_DEFAULTS = {"post_processing": True, "imap_mode": True, "threshold": 0.45, "method": "sca",
                "ref": "partial_cognate_sets", "idtype": "strict"}
OMITTABLE = ["post_processing", "imap_mode", "threshold", "method", "ref", "idtype"]


def source_defaults():
    """The defaults as the current source states them (signature + the kw dict literal of
    partial_cluster + Partial.__init__), for comparison with DOC_DEFAULTS."""
    import ast
    import inspect
    import textwrap
    from lingpy.compare.partial import Partial
    sig = inspect.signature(Partial.partial_cluster)
    out = {"threshold": sig.parameters["threshold"].default, "method": sig.parameters["method"].default,
           "idtype": inspect.signature(Partial.add_cognate_ids).parameters["idtype"].default}
    for fn, names in ((Partial.partial_cluster, {"imap_mode": "imap_mode", "post_processing": "post_processing"}),
                      (Partial.__init__, {"partial_cognates": "ref"})):
        tree = ast.parse(textwrap.dedent(inspect.getsource(fn)))
        for node in ast.walk(tree):
            if isinstance(node, ast.Assign) and any(isinstance(t, ast.Name) and t.id == "kw" for t in node.targets):
                v = node.value
                if isinstance(v, ast.Call):
                    for k in v.keywords:
                        if k.arg in names:
                            out[names[k.arg]] = ast.literal_eval(k.value)
                elif isinstance(v, ast.Dict):
                    for k, val in zip(v.keys, v.values):
                        if isinstance(k, ast.Constant) and k.value in names:
                            out[names[k.value]] = ast.literal_eval(val)
    return out


def gen_omit(rng):
    if rng.random() < 0.6:
        return []
    k = rng.choice([1, 1, 1, 2, 2, 3, len(OMITTABLE)])
    return sorted(rng.sample(OMITTABLE, k))


def apply_omit(case, omit):
    """Omitted keywords take their documented default in the case description."""
    case["omit"] = sorted(omit)
    if "post_processing" in omit:
        case["post"] = DOC_DEFAULTS["post_processing"]
    if "imap_mode" in omit:
        case["imap"] = DOC_DEFAULTS["imap_mode"]
    if "threshold" in omit:
        case["thr"] = F(45, 100) if case["stream"] == "stub" else DOC_DEFAULTS["threshold"]
    return case


# ---------------------------------------------------------------------------------------
# generators

def gen_morpheme(rng):
    shape = rng.choice(["CV", "CV", "CVC", "V", "VC", "C"])
    return [rng.choice(CONS) if s == "C" else rng.choice(VOW) for s in shape]


def gen_tokens(rng, pool, weird):
    n = rng.choice([1, 1, 2, 2, 2, 3, 3, 4])
    ms = []
    for _ in range(n):
        if ms and rng.random() < 0.3:
            ms.append(list(rng.choice(ms)))          # a morpheme repeated inside the word
        else:
            ms.append(list(rng.choice(pool)))
    toks = []
    for m in ms:
        if toks:
            toks.append("+")
        toks += m
    if weird and rng.random() < 0.5:
        # separators where ' '.join(tokens).split(' + ') does not split
        kind = rng.choice(["lead", "trail", "double", "triple"])
        if kind == "lead":
            toks = ["+"] + toks
        elif kind == "trail":
            toks = toks + ["+"]
        else:
            pos = [i for i, t in enumerate(toks) if t == "+"]
            if pos:
                i = rng.choice(pos)
                toks = toks[:i] + ["+"] * (2 if kind == "double" else 3) + toks[i + 1:]
            else:
                toks = toks + ["+"] * (2 if kind == "double" else 3) + list(rng.choice(pool))
    return toks


def gen_rows(rng, big=False):
    nconc = rng.choice([1, 2, 2, 2, 3] + ([4] if big else []))
    nlang = rng.choice([2, 3, 3, 4] + ([5] if big else []))
    weird = rng.random() < 0.2
    rows = []
    for c in range(nconc):
        pool = [gen_morpheme(rng) for _ in range(rng.choice([1, 2, 2, 3, 4]))]
        for l in range(nlang):
            r = rng.random()
            nw = 0 if r < 0.2 else (2 if r > 0.85 else 1)      # missing cell / synonyms
            for _ in range(nw):
                rows.append(("L%d" % l, "c%d" % c, gen_tokens(rng, pool, weird)))
    if not rows:
        rows.append(("L0", "c0", gen_tokens(rng, [gen_morpheme(rng)], False)))
    rng.shuffle(rows)
    # keep the matrices small enough for the in-Coq evaluation
    out, count = [], {}
    for row in rows:
        nm = 1 + sum(1 for t in row[2] if t == "+")
        if count.get(row[1], 0) + nm <= (14 if big else 11):
            out.append(row)
            count[row[1]] = count.get(row[1], 0) + nm
    return out


def gen_case(rng, stream, big=False):
    case = {"stream": stream, "rows": gen_rows(rng, big), "imap": rng.random() < 0.6,
            "post": rng.random() < 0.7}
    if stream == "stub":
        case["method"] = rng.choice(METHODS_STUB)
        case["thr"] = rng.choice(THR_STUB)
        case["stub"] = {"seed": rng.randrange(10 ** 6), "grid": rng.choice(sorted(GRIDS)),
                        "zerodiv": rng.choice([0, 0, 0, 0, 0, 30, 150])}
    else:
        case["method"] = rng.choice(METHODS_REAL)
        case["thr"] = rng.choice(THR_REAL)
        case["stub"] = None
    return apply_omit(case, gen_omit(rng))


def exhaustive_cases():
    """Small scope: two languages, one concept, every pair of words over the morphemes {ta, ku}
    with 1..2 morphemes x 2 stub seeds x methods x imap x post, at one threshold."""
    ms = [["t", "a"], ["k", "u"]]
    words = []
    for m1 in ms:
        words.append(list(m1))
        for m2 in ms:
            words.append(m1 + ["+"] + m2)
    for wa in words:
        for wb in words:
            for seed in (1, 2):
                for meth in ("upgma", "single", "complete"):
                    for imap in (False, True, None):            # None: keyword omitted
                        for post in (False, True, None):
                            omit = [n for n, v in (("imap_mode", imap), ("post_processing", post)) if v is None]
                            yield apply_omit(
                                {"stream": "stub", "rows": [("L0", "c0", wa), ("L1", "c0", wb), ("L2", "c0", wa)],
                                 "imap": imap, "post": post, "method": meth, "thr": F(1, 2),
                                 "stub": {"seed": seed, "grid": "coarse", "zerodiv": 0}}, omit)


# ---------------------------------------------------------------------------------------
# implementation runner

def stub_value(stub, a, b):
    h = zlib.crc32(repr((stub["seed"], a, b)).encode())
    if stub["zerodiv"] and h % 1000 < stub["zerodiv"]:
        return "Z"
    grid = GRIDS["low"] if a == b else GRIDS[stub["grid"]]
    return grid[(h // 1000) % len(grid)]


def upgma_safe(raw, M, thr):
    """Does the float run of average-linkage flat clustering take the same decisions as the exact
    run?  raw: the matrix the code was given (floats/ints), M: the same as Fractions, thr: the float
    threshold.  Follows the exact run; at every step the float expression the code evaluates
    (sum(score) / len(score), same element order) must select the same first minimum and fall on
    the same side of the threshold as the exact value.  Only used to decide whether ids of the
    real-aligner stream are compared with the exact model."""
    clusters = {i: [i] for i in range(len(M))}
    while len(clusters) > 1:
        items = list(clusters.items())
        fl, ex = [], []
        for i, va in items:
            for j, vb in items:
                if i != j:
                    sf = [raw[a][b] for a in va for b in vb]
                    se = [M[a][b] for a in va for b in vb]
                    fl.append(sum(sf) / len(sf))
                    ex.append(((i, j), sum(se) / len(se)))
        fi = fl.index(min(fl))
        em = min(v for _, v in ex)
        ei = [v for _, v in ex].index(em)
        if fi != ei or (fl[fi] <= thr) != (em <= F(thr)):
            return False
        if em <= F(thr):
            ci, cj = ex[ei][0]
            clusters[ci] += clusters[cj]
            del clusters[cj]
        else:
            break
    return True


def colmean_safe(raw, M, x, y):
    """Same question for the comparison sn1 <= sn2 of the post-processing (x before y)."""
    n = len(M)
    s1, s2 = 0, 0
    for i in range(n):
        s1 += raw[i][x]
        s2 += raw[i][y]
    s1, s2 = s1 / n, s2 / n
    e1 = sum(M[i][x] for i in range(n)) / n
    e2 = sum(M[i][y] for i in range(n)) / n
    return (s1 <= s2) == (e1 <= e2)


def run_impl(case):
    import logging
    import lingpy
    from lingpy.compare import partial as P
    from lingpy.algorithm import clustering as CL
    from tqdm import tqdm

    D = {0: ["doculect", "concept", "tokens"]}
    for i, (l, c, t) in enumerate(case["rows"]):
        D[i + 1] = [l, c, list(t)]
    stub = case["stub"]
    omit = case.get("omit", [])
    pid = DOC_DEFAULTS["ref"] if "ref" in omit else "pid"
    saved_pb, saved_calign, saved_fc = lingpy.util.pb, P.calign, CL.flat_cluster
    lingpy.util.pb = functools.partial(tqdm, leave=False, disable=True)
    logging.disable(logging.CRITICAL)
    try:
        wl = P.Partial(D, check=False)
        concepts = sorted(wl.rows)
        if concepts != list(wl.rows):
            raise AssertionError("harness: concept order")
        segs = sorted({t for _, _, ts in case["rows"] for t in ts if t != "+"})
        segcode = {t: i + 1 for i, t in enumerate(segs)}
        segcode["+"] = 0
        codes = {}

        def acode(triple):
            if triple not in codes:
                codes[triple] = len(codes) + 1
            return codes[triple]

        view = []
        for c in concepts:
            ws = []
            for k in wl.get_list(row=c, flat=True):
                k = int(k)
                toks, nums = wl[k, "tokens"], wl[k, "numbers"]
                wts, pros = wl[k, "weights"], wl[k, "prostrings"]
                if not (len(toks) == len(nums) == len(wts) == len(pros)):
                    raise AssertionError("harness: columns of different length")
                ws.append((k, [(segcode[t], acode((n.split(".", 1)[1], float(w), p)))
                               for t, n, w, p in zip(toks, nums, wts, pros)]))
            view.append(ws)

        def enc(seq, wts, pros):
            if not (len(seq) == len(wts) == len(pros)):
                return (-1, len(seq), len(wts), len(pros))
            return tuple(acode((s, float(w), p)) for s, w, p in zip(seq, wts, pros))

        table = {}

        class Shim(object):
            def __getattr__(self, name):
                return getattr(saved_calign, name)

            def align_pair(self, *args):
                a, b = enc(args[0], args[2], args[4]), enc(args[1], args[3], args[5])
                if stub is not None:
                    d = stub_value(stub, a, b)
                    if d == "Z":
                        table[(a, b)] = "Z"
                        raise ZeroDivisionError("stub")
                    ret = ([], [], float(d))
                else:
                    try:
                        ret = saved_calign.align_pair(*args)
                    except ZeroDivisionError:
                        table[(a, b)] = "Z"
                        raise
                    d = F(ret[2])
                if table.setdefault((a, b), d) != d:
                    raise AssertionError("harness: the aligner is not a function of what was recorded")
                return ret

        mats = []

        def fc(*a, **kw):
            r = saved_fc(*a, **kw)
            m = kw["matrix"] if "matrix" in kw else (a[2] if len(a) > 2 else None)
            try:
                mats.append(([[x for x in row] for row in m], [[F(x) for x in row] for row in m], dict(r)))
            except Exception:
                mats.append(None)
            return r

        P.calign = Shim()
        CL.flat_cluster = fc
        status = 0
        try:
            kwargs = dict(method="sca", threshold=float(case["thr"]), cluster_method=case["method"],
                          imap_mode=case["imap"], post_processing=case["post"], ref="pid")
            for name in omit:
                kwargs.pop(name, None)       # rely on the library's default
            wl.partial_cluster(**kwargs)
        except ZeroDivisionError:
            status = 1
        except AttributeError as e:
            # the handler of ZeroDivisionError in the imap_mode=False construction reads self._tokens
            if "_tokens" not in str(e) or not any(v == "Z" for v in table.values()):
                raise
            status = 2
        finally:
            P.calign = saved_calign
            CL.flat_cluster = saved_fc
        res = {"view": view, "status": status, "calls": len(table),
               "table": [(list(a), list(b), d if d == "Z" else str(F(d))) for (a, b), d in table.items()]}
        if status:
            res.update(out=[], order=[], strict=[], loose=[], cmp=2, collisions=0, tie_excluded=False)
            return res
        out = [[(k, [int(x) for x in wl[k, pid]]) for k, _ in ws] for ws in view]
        if "idtype" in omit:
            wl.add_cognate_ids(pid, "strictid")
        else:
            wl.add_cognate_ids(pid, "strictid", idtype="strict")
        wl.add_cognate_ids(pid, "looseid", idtype="loose")
        res["out"] = out
        res["order"] = [int(k) for k in wl]
        res["strict"] = [int(wl[k, "strictid"]) for k in wl]
        res["loose"] = [[int(wl[k, "looseid"]) for k, _ in ws] for ws in view]
        # which comparison of ids is justified (see module docstring)
        collisions, unsafe = 0, False
        for ci, ws in enumerate(out):
            rec = mats[ci] if ci < len(mats) else None
            words = [k for k, ids in ws for _ in ids]
            if rec is None or len(rec[0]) != len(words):
                continue
            raw, M, cl = rec
            n = len(M)
            if stub is None and case["method"] == "upgma" and not upgma_safe(raw, M, float(case["thr"])):
                unsafe = True
            if case["post"]:
                for x in range(n):
                    for y in range(x + 1, n):
                        if words[x] == words[y] and cl.get(x) == cl.get(y):
                            collisions += 1
                            if stub is None and not colmean_safe(raw, M, x, y):
                                unsafe = True
        res["collisions"] = collisions
        res["tie_excluded"] = unsafe
        if stub is not None:
            res["cmp"] = 2
        else:
            res["cmp"] = 0 if unsafe else 2
        return res
    finally:
        lingpy.util.pb = saved_pb
        logging.disable(logging.NOTSET)


# ---------------------------------------------------------------------------------------
# rendering

def pids_lit(out):
    return L.lst([L.lst([L.pair(L.nat(k), L.natlist(ids)) for k, ids in ws]) for ws in out])


def thr_fraction(case):
    # stub stream: the decimal the harness wrote; real stream: the float the code compares with
    return F(case["thr"])


def cfg_lit(case):
    return L.record("config", [L.b(case["imap"]), L.b(case["method"] == "ward"), COQ_METH[case["method"]],
                               L.q(thr_fraction(case)), L.b(case["post"])])


def ores_lit(d):
    return "ZeroDiv" if d == "Z" else "(Dist %s)" % L.q(F(d))


def wl_lit(view):
    return L.lst([L.lst([L.pair(L.nat(k), L.lst([L.pair(L.z(s), L.z(a)) for s, a in toks])) for k, toks in ws])
                  for ws in view])


def table_lit(table):
    return L.lst([L.pair(L.pair(L.zlist(a), L.zlist(b)), ores_lit(d)) for a, b, d in table])


def render(case, res):
    return L.record("partial_case", [
        cfg_lit(case), wl_lit(res["view"]), table_lit(res["table"]),
        L.nat(res["cmp"]), L.nat(res["status"]), pids_lit(res["out"]),
        L.natlist(res["order"]), L.natlist(res["strict"]),
        L.lst([L.natlist(r) for r in res["loose"]]),
    ])


BITS = {0: "correspondence: partial ids of the model differ from the implementation's (or raised/returned differs)",
        1: "one id per morpheme: a word is missing or has a number of ids different from its number of morphemes",
        2: "an identifier is shared between two concepts",
        3: "post-processing on, but two morphemes of one word have the same identifier",
        4: "correspondence: strict/loose ids of the model differ from add_cognate_ids",
        5: "strict ids are not equal exactly for identical id sequences",
        6: "loose ids are not the connected components of 'shares a partial id' per concept (or shared between concepts)"}


def nontrivial(case, res):
    """Non-trivial: the run returned, and in some concept at least two morphemes share an id while
    at least two different ids occur (a merge happened and not everything was merged)."""
    if res["status"]:
        return False
    for ws in res["out"]:
        ids = [x for _, l in ws for x in l]
        if 1 < len(set(ids)) < len(ids):
            return True
    return False


def jsonable(case, res=None):
    c = dict(case)
    c["rows"] = [[l, co, list(t)] for l, co, t in case["rows"]]
    c["thr"] = str(case["thr"]) if isinstance(case["thr"], F) else case["thr"]
    if res is not None:
        c["impl"] = {k: res[k] for k in ("status", "out", "order", "strict", "loose", "cmp", "collisions",
                                         "tie_excluded", "calls")}
    return c


def from_json(c):
    case = dict(c)
    case["rows"] = [(l, co, list(t)) for l, co, t in c["rows"]]
    if isinstance(c["thr"], str):
        case["thr"] = F(c["thr"])
    case.pop("impl", None)
    return case


def shrink(case):
    rows = case["rows"]
    if len(rows) > 1:
        for i in range(len(rows)):
            c = dict(case)
            c["rows"] = rows[:i] + rows[i + 1:]
            yield c
    for i, (l, co, t) in enumerate(rows):
        if "+" in t:
            j = len(t) - 1 - t[::-1].index("+")
            for nt in (t[:j], t[j + 1:]):
                if nt:
                    c = dict(case)
                    c["rows"] = rows[:i] + [(l, co, nt)] + rows[i + 1:]
                    yield c
    if case["stub"] and case["stub"]["zerodiv"]:
        c = dict(case)
        c["stub"] = dict(case["stub"], zerodiv=0)
        yield c
    for name in case.get("omit", []):
        c = dict(case)
        c["omit"] = [n for n in case["omit"] if n != name]
        yield c


def classify(case, res):
    nm = max((sum(len(l) for _, l in ws) for ws in res["out"]), default=0)
    tags = ["stream=" + case["stream"], "method=" + case["method"], "imap=%s" % case["imap"],
            "post=%s" % case["post"], "status=%d" % res["status"], "cmp=%d" % res["cmp"],
            "max_morphemes_per_concept=%d" % nm]
    tags += ["omitted=" + n for n in case.get("omit", [])]
    if not case.get("omit"):
        tags.append("all_keywords_passed")
    if res["collisions"]:
        tags.append("same_word_collision")
    if res["tie_excluded"]:
        tags.append("tie_excluded_from_equality")
    if any(t and (t[0] == "+" or t[-1] == "+" or any(a == b == "+" for a, b in zip(t, t[1:])))
           for _, _, t in case["rows"]):
        tags.append("irregular_separators")
    if any(len(set(map(tuple, _split(t)))) < len(_split(t)) for _, _, t in case["rows"]):
        tags.append("repeated_morpheme_in_word")
    cells = {}
    for l, co, _ in case["rows"]:
        cells[(l, co)] = cells.get((l, co), 0) + 1
    if any(v > 1 for v in cells.values()):
        tags.append("synonyms")
    langs = {l for l, _, _ in case["rows"]}
    concs = {co for _, co, _ in case["rows"]}
    if len(cells) < len(langs) * len(concs):
        tags.append("missing_cells")
    return tags


def _split(t):
    return [m.split() for m in " ".join(t).split(" + ")]


def model_expr(case, res, rundir):
    from ..lib import coqrun
    try:
        return coqrun.eval_expr(rundir, "replay_model", IMPORTS,
                                "partial_cluster (table_dist %s) %s %s" % (
                                    table_lit(res["table"]), cfg_lit(case), wl_lit(res["view"])))
    except Exception as e:      # only a convenience for the replay file
        return "not evaluated: %s" % e


# ---------------------------------------------------------------------------------------
# add_cognate_ids on arbitrary source id lists

def d_gen_case(rng, big=False):
    nconc = rng.choice([1, 2, 2, 3])
    nlang = rng.choice([2, 3, 4] + ([5, 6] if big else []))
    shared_pool = rng.random() < 0.4          # ids reused across concepts
    rows = []
    for c in range(nconc):
        base = 0 if shared_pool else 10 * c
        pool = [base + i for i in range(1, rng.choice([2, 3, 4, 6]))]
        for l in range(nlang):
            r = rng.random()
            nw = 0 if r < 0.15 else (2 if r > 0.85 else 1)
            for _ in range(nw):
                n = rng.choice([0, 1, 1, 2, 2, 3])
                ids = [rng.choice(pool) for _ in range(n)]
                rows.append(("L%d" % l, "c%d" % c, ids))
    if not rows:
        rows.append(("L0", "c0", [1]))
    rng.shuffle(rows)
    return {"stream": "derive", "rows": rows, "omit": ["idtype"] if rng.random() < 0.3 else []}


def d_run_impl(case):
    import logging
    import lingpy
    from lingpy.compare import partial as P
    from tqdm import tqdm
    D = {0: ["doculect", "concept", "tokens", "src"]}
    for i, (l, c, ids) in enumerate(case["rows"]):
        D[i + 1] = [l, c, ["t", "a"], list(ids)]
    saved_pb = lingpy.util.pb
    lingpy.util.pb = functools.partial(tqdm, leave=False, disable=True)
    logging.disable(logging.CRITICAL)
    try:
        wl = P.Partial(D, check=False)
        if "idtype" in case.get("omit", []):
            wl.add_cognate_ids("src", "strictid")
        else:
            wl.add_cognate_ids("src", "strictid", idtype="strict")
        wl.add_cognate_ids("src", "looseid", idtype="loose")
        src, loose = [], []
        for c in wl.rows:
            ks = wl.get_list(row=c, flat=True)
            src.append([(int(k), [int(x) for x in wl[k, "src"]]) for k in ks])
            loose.append([int(wl[k, "looseid"]) for k in ks])
        return {"src": src, "order": [int(k) for k in wl], "strict": [int(wl[k, "strictid"]) for k in wl],
                "loose": loose}
    finally:
        lingpy.util.pb = saved_pb
        logging.disable(logging.NOTSET)


def d_render(case, res):
    return L.record("derive_case", [pids_lit(res["src"]), L.natlist(res["order"]), L.natlist(res["strict"]),
                                    L.lst([L.natlist(r) for r in res["loose"]])])


def d_nontrivial(case, res):
    """Non-trivial: some concept has a loose component of more than one word and at least two components."""
    return any(1 < len(set(r)) < len(r) for r in res["loose"])


def d_jsonable(case, res=None):
    c = dict(case)
    c["rows"] = [[l, co, list(t)] for l, co, t in case["rows"]]
    if res is not None:
        c["impl"] = res
    return c


def d_from_json(c):
    case = dict(c)
    case["rows"] = [(l, co, list(t)) for l, co, t in c["rows"]]
    case.pop("impl", None)
    return case


def d_shrink(case):
    rows = case["rows"]
    if len(rows) > 1:
        for i in range(len(rows)):
            c = dict(case)
            c["rows"] = rows[:i] + rows[i + 1:]
            yield c
    for i, (l, co, t) in enumerate(rows):
        for j in range(len(t)):
            c = dict(case)
            c["rows"] = rows[:i] + [(l, co, t[:j] + t[j + 1:])] + rows[i + 1:]
            yield c


def d_classify(case, res):
    tags = ["stream=derive", "words=%d" % len(case["rows"])] + ["omitted=" + n for n in case.get("omit", [])]
    if any(not t for _, _, t in case["rows"]):
        tags.append("empty_id_list")
    ids = {}
    for _, co, t in case["rows"]:
        for x in t:
            ids.setdefault(x, set()).add(co)
    if any(len(v) > 1 for v in ids.values()):
        tags.append("id_shared_between_concepts")
    return tags


derive = types.SimpleNamespace(
    IMPORTS=IMPORTS, BITS=BITS, run_impl=d_run_impl, render=d_render, nontrivial=d_nontrivial,
    jsonable=d_jsonable, from_json=d_from_json, shrink=d_shrink, classify=d_classify)
