"""Component: partial cognate detection (lingpy.compare.partial) - generators, implementation
runner with the aligner recorded or substituted from outside, Gallina case rendering.  Used by C16.

Two kinds of cases:
  * "real":  the real aligner (calign.align_pair, method 'sca') runs; every call and its result
             is recorded (floats as exact Fractions) and replayed into the model.
  * "stub":  the aligner is substituted by a deterministic function of its arguments with
             values on a dyadic grid (and, rarely, a ZeroDivisionError), so that every float
             operation of the surrounding code is exact even when values tie.
and a separate component `derive` for add_cognate_ids on arbitrary source id lists.
"""
import functools
import types
import zlib
from fractions import Fraction as F

from ..lib import coqlit as L

IMPORTS = ("From LV Require Import Common.Cases Cluster.Flat Cluster.FlatQ Cognates.Components "
           "Cognates.Partial Cognates.PartialExec.")

CONS = list("ptkmnslrbdgh")
VOW = list("aeiou")
METHODS_STUB = ["upgma", "single", "complete", "ward"] * 3 + ["mcl", "external"]
METHODS_REAL = ["upgma", "single", "complete"] * 4 + ["mcl", "external"]
# 'mcl' and 'external' (an external_function supplied by the harness) are not modelled: what the
# routine returned for each matrix is recorded, checked against the contract (every position has an
# id in 1..n) by a verified checker, and replayed into the generic model partial_cluster_any
ORACLE_METHODS = ("mcl", "external")
COQ_METH = {"upgma": "Upgma", "single": "Single", "complete": "Complete", "ward": "Upgma",
            "mcl": "Upgma", "external": "Upgma"}
GRIDS = {
    "eighths": [F(k, 8) for k in range(0, 9)],
    "quarters": [F(k, 4) for k in range(0, 6)],
    "coarse": [F(0), F(1, 2), F(1)],
    "ties": [F(1, 4), F(1, 2)],
    "low": [F(0), F(1, 8), F(1, 4), F(3, 8)],
}
THR_STUB = [F(3, 10), F(45, 100), F(1, 2), F(1, 4), F(3, 4), F(1), F(0), F(55, 100), F(1, 8), F(7, 20), F(3, 8)]
THR_REAL = [0.45, 0.3, 0.55, 0.6, 0.2, 0.75, 0.4, 0.5, 0.35]


# The documented defaults of Partial.partial_cluster (signature and its kw dict) and of
# Partial.__init__ / add_cognate_ids.  A case may OMIT optional keywords ("omit"); the call then
# relies on the library's own defaults while the model is given these documented values.
# (cluster_method cannot be omitted here: its default 'infomap' needs igraph, which is absent.)
DOC_DEFAULTS = {"post_processing": True, "imap_mode": True, "threshold": 0.45, "method": "sca",
                "ref": "partial_cognate_sets", "idtype": "strict"}
OMITTABLE = ["post_processing", "imap_mode", "threshold", "method", "ref", "idtype"]


def source_defaults():
    """The defaults as the current source states them (signature + the kw dict literal of
    partial_cluster + Partial.__init__), for comparison with DOC_DEFAULTS."""
    import ast
    import inspect
    import textwrap
    from lingpy.compare.partial import Partial
    sig = inspect.signature(Partial.partial_cluster)
    out = {"threshold": sig.parameters["threshold"].default, "method": sig.parameters["method"].default,
           "idtype": inspect.signature(Partial.add_cognate_ids).parameters["idtype"].default}
    for fn, names in ((Partial.partial_cluster, {"imap_mode": "imap_mode", "post_processing": "post_processing"}),
                      (Partial.__init__, {"partial_cognates": "ref"})):
        tree = ast.parse(textwrap.dedent(inspect.getsource(fn)))
        for node in ast.walk(tree):
            if isinstance(node, ast.Assign) and any(isinstance(t, ast.Name) and t.id == "kw" for t in node.targets):
                v = node.value
                if isinstance(v, ast.Call):
                    for k in v.keywords:
                        if k.arg in names:
                            out[names[k.arg]] = ast.literal_eval(k.value)
                elif isinstance(v, ast.Dict):
                    for k, val in zip(v.keys, v.values):
                        if isinstance(k, ast.Constant) and k.value in names:
                            out[names[k.value]] = ast.literal_eval(val)
    return out


def gen_omit(rng):
    if rng.random() < 0.6:
        return []
    k = rng.choice([1, 1, 1, 2, 2, 3, len(OMITTABLE)])
    return sorted(rng.sample(OMITTABLE, k))


def apply_omit(case, omit):
    """Omitted keywords take their documented default in the case description."""
    case["omit"] = sorted(omit)
    if "post_processing" in omit:
        case["post"] = DOC_DEFAULTS["post_processing"]
    if "imap_mode" in omit:
        case["imap"] = DOC_DEFAULTS["imap_mode"]
    if "threshold" in omit:
        case["thr"] = F(45, 100) if case["stream"] == "stub" else DOC_DEFAULTS["threshold"]
    return case


# ---------------------------------------------------------------------------------------
# generators

def gen_morpheme(rng):
    shape = rng.choice(["CV", "CV", "CVC", "V", "VC", "C"])
    return [rng.choice(CONS) if s == "C" else rng.choice(VOW) for s in shape]


def gen_tokens(rng, pool, weird):
    n = rng.choice([1, 1, 2, 2, 2, 3, 3, 4])
    ms = []
    for _ in range(n):
        if ms and rng.random() < 0.3:
            ms.append(list(rng.choice(ms)))          # a morpheme repeated inside the word
        else:
            ms.append(list(rng.choice(pool)))
    toks = []
    for m in ms:
        if toks:
            toks.append("+")
        toks += m
    if weird and rng.random() < 0.5:
        # separators where ' '.join(tokens).split(' + ') does not split
        kind = rng.choice(["lead", "trail", "double", "triple"])
        if kind == "lead":
            toks = ["+"] + toks
        elif kind == "trail":
            toks = toks + ["+"]
        else:
            pos = [i for i, t in enumerate(toks) if t == "+"]
            if pos:
                i = rng.choice(pos)
                toks = toks[:i] + ["+"] * (2 if kind == "double" else 3) + toks[i + 1:]
            else:
                toks = toks + ["+"] * (2 if kind == "double" else 3) + list(rng.choice(pool))
    return toks


def gen_rows(rng, big=False):
    nconc = rng.choice([1, 2, 2, 2, 3] + ([4] if big else []))
    nlang = rng.choice([2, 3, 3, 4] + ([5] if big else []))
    weird = rng.random() < 0.2
    rows = []
    for c in range(nconc):
        pool = [gen_morpheme(rng) for _ in range(rng.choice([1, 2, 2, 3, 4]))]
        for l in range(nlang):
            r = rng.random()
            nw = 0 if r < 0.2 else (2 if r > 0.85 else 1)      # missing cell / synonyms
            for _ in range(nw):
                rows.append(("L%d" % l, "c%d" % c, gen_tokens(rng, pool, weird)))
    if not rows:
        rows.append(("L0", "c0", gen_tokens(rng, [gen_morpheme(rng)], False)))
    rng.shuffle(rows)
    # keep the matrices small enough for the in-Coq evaluation
    out, count = [], {}
    for row in rows:
        nm = 1 + sum(1 for t in row[2] if t == "+")
        if count.get(row[1], 0) + nm <= (14 if big else 11):
            out.append(row)
            count[row[1]] = count.get(row[1], 0) + nm
    return out


def gen_cell(rng, tokens):
    """How the segments cell of a word is handed to the library: a fresh list, a tuple, a
    lingpy.basictypes.lists object, or a lists object that was built with other content and then
    edited IN PLACE into these tokens (its cached .n is then stale)."""
    r = rng.random()
    if r < 0.45:
        return "list"
    if r < 0.55:
        return "tuple"
    if r < 0.65:
        return rng.choice(["lists", "lists_str"])
    seps = [i for i, t in enumerate(tokens) if t == "+"]
    kinds = ["set", "del"] + (["insert", "insert", "extend", "extend"] if seps else [])
    kind = rng.choice(kinds)
    if kind in ("insert", "extend"):
        return [kind, rng.choice(seps)]
    i = rng.randrange(len(tokens))
    return [kind, i, rng.choice(["x", "+", "a"])]


def make_cell(tokens, spec):
    """-> (the cell object for dict input, initial tokens for file input, edit to apply afterwards)."""
    from lingpy.basictypes import lists
    tokens = list(tokens)
    if spec == "list":
        return list(tokens), tokens, None
    if spec == "tuple":
        return tuple(tokens), tokens, None
    if spec == "lists":
        return lists(list(tokens)), tokens, None
    if spec == "lists_str":
        return lists(" ".join(tokens)), tokens, None
    kind = spec[0]
    if kind == "insert":
        p = spec[1]
        init, edit = tokens[:p] + tokens[p + 1:], ("insert", p, "+")
    elif kind == "extend":
        j = spec[1]
        init, edit = tokens[:j], ("extend", " ".join(tokens[j + 1:]))
    elif kind == "set":
        i, other = spec[1], spec[2]
        init, edit = tokens[:i] + [other] + tokens[i + 1:], ("set", i, tokens[i])
    else:
        i, extra = spec[1], spec[2]
        init, edit = tokens[:i] + [extra] + tokens[i:], ("del", i)
    if not init or (kind == "extend" and not tokens[spec[1] + 1:]):
        return lists(list(tokens)), tokens, None
    x = lists(list(init))
    apply_edit(x, edit)
    if list(x) != tokens:
        return lists(list(tokens)), tokens, None
    return x, init, edit


def apply_edit(x, edit):
    if edit[0] == "insert":
        x.insert(edit[1], edit[2])
    elif edit[0] == "extend":
        x.extend(edit[1])
    elif edit[0] == "set":
        x[edit[1]] = edit[2]
    else:
        del x[edit[1]]


def fix_ext(rng, spec):
    """An external clustering function is described by a seed; 'wild' = its ids go up to 3n
    (outside the contract), only together with post-processing, where the clauses do not need it."""
    if spec["method"] == "external":
        ext = dict(spec.get("ext") or {"seed": rng.randrange(10 ** 6), "wild": rng.random() < 0.3})
        if not spec["post"]:
            ext["wild"] = False
        spec["ext"] = ext
    else:
        spec.pop("ext", None)
    return spec


def ext_function(ext, record):
    """external_function(threshold, matrix, taxa=..., revert=True) -> {position: cluster id}: a
    deterministic pseudo-random partition of the positions with arbitrary (non-contiguous) labels."""
    import random as _random

    def f(threshold, matrix, taxa=None, revert=True):
        n = len(matrix)
        h = zlib.crc32(repr((ext["seed"], n, [[str(F(x)) for x in row] for row in matrix])).encode())
        rnd = _random.Random(h)
        nb = rnd.randint(1, n)
        labels = rnd.sample(range(1, (3 * n if ext["wild"] else n) + 1), nb)
        out = {i: labels[rnd.randrange(nb)] for i in range(n)}
        record(matrix, out)
        return out
    return f


def gen_call(rng, stream):
    spec = {"imap": rng.random() < 0.6, "post": rng.random() < 0.7}
    if stream == "stub":
        spec["method"] = rng.choice(METHODS_STUB)
        spec["thr"] = rng.choice(THR_STUB)
    else:
        spec["method"] = rng.choice(METHODS_REAL)
        spec["thr"] = rng.choice(THR_REAL)
    return fix_ext(rng, spec)


def gen_pre(rng, case):
    """Earlier partial_cluster calls on the same object: copies of the last call with one or two
    keywords varied (or none), so that state carried from one call to the next shows."""
    pre = []
    for _ in range(rng.choice([1, 1, 1, 2])):
        spec = {k: case[k] for k in ("imap", "post", "method", "thr")}
        spec["stream"] = case["stream"]
        for what in rng.sample(["post", "post", "imap", "thr", "method", "none", "omit"], rng.choice([1, 1, 2])):
            if what in ("post", "imap"):
                spec[what] = not spec[what]
            elif what == "thr":
                spec["thr"] = rng.choice(THR_STUB if case["stream"] == "stub" else THR_REAL)
            elif what == "method":
                spec["method"] = rng.choice(METHODS_STUB if case["stream"] == "stub" else METHODS_REAL)
        omit = [n for n in gen_omit(rng) if n not in ("ref", "idtype")] if rng.random() < 0.4 else []
        apply_omit(spec, omit)
        del spec["stream"]
        if case.get("ext"):
            spec["ext"] = dict(case["ext"])
        pre.append(fix_ext(rng, spec))
    return pre


def gen_case(rng, stream, big=False):
    case = {"stream": stream, "rows": gen_rows(rng, big)}
    case.update(gen_call(rng, stream))
    if stream == "stub":
        case["stub"] = {"seed": rng.randrange(10 ** 6), "grid": rng.choice(sorted(GRIDS)),
                        "zerodiv": rng.choice([0, 0, 0, 0, 0, 30, 150])}
    else:
        case["stub"] = None
    apply_omit(case, gen_omit(rng))
    fix_ext(rng, case)
    case["pre"] = gen_pre(rng, case) if rng.random() < 0.35 else []
    case["input"] = "file" if rng.random() < 0.3 else "dict"
    case["cells"] = [gen_cell(rng, t) for _, _, t in case["rows"]] if rng.random() < 0.5 else None
    case["loose_first"] = rng.random() < 0.4
    return case


def exhaustive_cases():
    """Small scope: two languages, one concept, every pair of words over the morphemes {ta, ku}
    with 1..2 morphemes x 2 stub seeds x methods x imap x post, at one threshold."""
    ms = [["t", "a"], ["k", "u"]]
    words = []
    for m1 in ms:
        words.append(list(m1))
        for m2 in ms:
            words.append(m1 + ["+"] + m2)
    n = 0
    for wa in words:
        for wb in words:
            for seed in (1, 2):
                for meth in ("upgma", "single", "complete"):
                    for imap in (False, True, None):            # None: keyword omitted
                        for post in (False, True, None):
                            omit = [n for n, v in (("imap_mode", imap), ("post_processing", post)) if v is None]
                            case = apply_omit(
                                {"stream": "stub", "rows": [("L0", "c0", wa), ("L1", "c0", wb), ("L2", "c0", wa)],
                                 "imap": imap, "post": post, "method": meth, "thr": F(1, 2),
                                 "stub": {"seed": seed, "grid": "coarse", "zerodiv": 0}}, omit)
                            # every second pattern is preceded by the same call with post-processing flipped
                            n += 1
                            case["pre"] = [dict(imap=case["imap"], post=not case["post"], method=meth,
                                                thr=F(1, 2), omit=[])] if n % 2 else []
                            yield case


# ---------------------------------------------------------------------------------------
# implementation runner

def stub_value(stub, a, b):
    h = zlib.crc32(repr((stub["seed"], a, b)).encode())
    if stub["zerodiv"] and h % 1000 < stub["zerodiv"]:
        return "Z"
    grid = GRIDS["low"] if a == b else GRIDS[stub["grid"]]
    return grid[(h // 1000) % len(grid)]


def upgma_safe(raw, M, thr):
    """Does the float run of average-linkage flat clustering take the same decisions as the exact
    run?  raw: the matrix the code was given (floats/ints), M: the same as Fractions, thr: the float
    threshold.  Follows the exact run; at every step the float expression the code evaluates
    (sum(score) / len(score), same element order) must select the same first minimum and fall on
    the same side of the threshold as the exact value.  Only used to decide whether ids of the
    real-aligner stream are compared with the exact model."""
    clusters = {i: [i] for i in range(len(M))}
    while len(clusters) > 1:
        items = list(clusters.items())
        fl, ex = [], []
        for i, va in items:
            for j, vb in items:
                if i != j:
                    sf = [raw[a][b] for a in va for b in vb]
                    se = [M[a][b] for a in va for b in vb]
                    fl.append(sum(sf) / len(sf))
                    ex.append(((i, j), sum(se) / len(se)))
        fi = fl.index(min(fl))
        em = min(v for _, v in ex)
        ei = [v for _, v in ex].index(em)
        if fi != ei or (fl[fi] <= thr) != (em <= F(thr)):
            return False
        if em <= F(thr):
            ci, cj = ex[ei][0]
            clusters[ci] += clusters[cj]
            del clusters[cj]
        else:
            break
    return True


def colmean_safe(raw, M, x, y):
    """Same question for the comparison sn1 <= sn2 of the post-processing (x before y)."""
    n = len(M)
    s1, s2 = 0, 0
    for i in range(n):
        s1 += raw[i][x]
        s2 += raw[i][y]
    s1, s2 = s1 / n, s2 / n
    e1 = sum(M[i][x] for i in range(n)) / n
    e2 = sum(M[i][y] for i in range(n)) / n
    return (s1 <= s2) == (e1 <= e2)


def derive_ids(wl, source, case):
    """add_cognate_ids strict and loose on one object, in either order."""
    def strict():
        if "idtype" in case.get("omit", []):
            wl.add_cognate_ids(source, "strictid")
        else:
            wl.add_cognate_ids(source, "strictid", idtype="strict")
    if case.get("loose_first"):
        wl.add_cognate_ids(source, "looseid", idtype="loose")
        strict()
    else:
        strict()
        wl.add_cognate_ids(source, "looseid", idtype="loose")


def load_wordlist(case, columns, rows, subdir="tmp-C16"):
    """Build the Partial object of a case: from a dictionary, or from a TSV file that is written,
    loaded with Wordlist and removed again.  rows: list of lists of cell values (dict input) /
    strings (file input) in the order of `columns`."""
    import os
    import shutil
    import tempfile
    from lingpy import Wordlist
    from lingpy.compare import partial as P
    from ..lib import env
    if case.get("input", "dict") == "file":
        base = os.path.join(env.BUILD, subdir)
        os.makedirs(base, exist_ok=True)
        d = tempfile.mkdtemp(dir=base)
        try:
            fn = os.path.join(d, "wl.tsv")
            with open(fn, "w", encoding="utf8") as f:
                f.write("\t".join(["ID"] + [c.upper() for c in columns]) + "\n")
                for i, row in enumerate(rows):
                    f.write("\t".join([str(i + 1)] + list(row)) + "\n")
            return Wordlist(fn)
        finally:
            shutil.rmtree(d, ignore_errors=True)
    D = {0: list(columns)}
    for i, row in enumerate(rows):
        D[i + 1] = list(row)
    return D


def run_impl(case):
    import logging
    import lingpy
    from lingpy.compare import partial as P
    from lingpy.algorithm import clustering as CL
    from lingpy.basictypes import lists
    from tqdm import tqdm

    stub = case["stub"]
    from_file = case.get("input", "dict") == "file"
    cells = case.get("cells") or ["list"] * len(case["rows"])
    saved_pb, saved_calign, saved_fc = lingpy.util.pb, P.calign, CL.flat_cluster
    saved_mcl = CL.mcl
    lingpy.util.pb = functools.partial(tqdm, leave=False, disable=True)
    logging.disable(logging.CRITICAL)
    try:
        made = [make_cell(t, spec) for (_, _, t), spec in zip(case["rows"], cells)]
        if from_file:
            src = load_wordlist(case, ["doculect", "concept", "tokens"],
                                [[l, c, " ".join(m[1])] for (l, c, _), m in zip(case["rows"], made)])
            for i, m in enumerate(made):         # edit the loaded cells in place
                if m[2] is not None:
                    if not isinstance(src[i + 1, "tokens"], lists):
                        raise AssertionError("harness: a tokens cell read from a file is not a lists object")
                    apply_edit(src[i + 1, "tokens"], m[2])
        else:
            src = load_wordlist(case, ["doculect", "concept", "tokens"],
                                [[l, c, m[0]] for (l, c, _), m in zip(case["rows"], made)])
        wl = P.Partial(src, check=False)
        for i, (_, _, t) in enumerate(case["rows"]):
            if list(wl[i + 1, "tokens"]) != list(t):
                raise AssertionError("harness: the segments of word %d are not the intended ones" % (i + 1))
        concepts = sorted(wl.rows)
        if concepts != list(wl.rows):
            raise AssertionError("harness: concept order")
        segs = sorted({t for _, _, ts in case["rows"] for t in ts if t != "+"})
        segcode = {t: i + 1 for i, t in enumerate(segs)}
        segcode["+"] = 0
        codes = {}

        def acode(triple):
            if triple not in codes:
                codes[triple] = len(codes) + 1
            return codes[triple]

        view = []
        for c in concepts:
            ws = []
            for k in wl.get_list(row=c, flat=True):
                k = int(k)
                toks, nums = wl[k, "tokens"], wl[k, "numbers"]
                wts, pros = wl[k, "weights"], wl[k, "prostrings"]
                if not (len(toks) == len(nums) == len(wts) == len(pros)):
                    raise AssertionError("harness: columns of different length")
                ws.append((k, [(segcode[t], acode((n.split(".", 1)[1], float(w), p)))
                               for t, n, w, p in zip(toks, nums, wts, pros)]))
            view.append(ws)

        def enc(seq, wts, pros):
            if not (len(seq) == len(wts) == len(pros)):
                return (-1, len(seq), len(wts), len(pros))
            return tuple(acode((s, float(w), p)) for s, w, p in zip(seq, wts, pros))

        table = {}

        class Shim(object):
            def __getattr__(self, name):
                return getattr(saved_calign, name)

            def align_pair(self, *args):
                a, b = enc(args[0], args[2], args[4]), enc(args[1], args[3], args[5])
                if stub is not None:
                    d = stub_value(stub, a, b)
                    if d == "Z":
                        table[(a, b)] = "Z"
                        raise ZeroDivisionError("stub")
                    ret = ([], [], float(d))
                else:
                    try:
                        ret = saved_calign.align_pair(*args)
                    except ZeroDivisionError:
                        table[(a, b)] = "Z"
                        raise
                    d = F(ret[2])
                if table.setdefault((a, b), d) != d:
                    raise AssertionError("harness: the aligner is not a function of what was recorded")
                return ret

        mats = []

        def fc(*a, **kw):
            r = saved_fc(*a, **kw)
            m = kw["matrix"] if "matrix" in kw else (a[2] if len(a) > 2 else None)
            try:
                mats.append(([[x for x in row] for row in m], [[F(x) for x in row] for row in m], dict(r)))
            except Exception:
                mats.append(None)
            return r

        clus_rec = []

        def record(matrix, result):
            try:
                raw = [[x for x in row] for row in matrix]
                M = [[F(float(x)) if not isinstance(x, int) else F(x) for x in row] for row in matrix]
                d = {int(i): int(v) for i, v in dict(result).items()}
                mats.append((raw, M, d))
                clus_rec.append((M, sorted(d.items())))
            except Exception:
                mats.append(None)
                clus_rec.append(None)

        def mcl(*a, **kw):
            r = saved_mcl(*a, **kw)
            record(kw["matrix"] if "matrix" in kw else a[1], r)
            return r

        def one_call(spec, ref):
            """One partial_cluster call on wl -> its observed result."""
            omit = spec.get("omit", [])
            col = DOC_DEFAULTS["ref"] if "ref" in omit else ref
            del mats[:]
            del clus_rec[:]
            status = 0
            try:
                kwargs = dict(method="sca", threshold=float(spec["thr"]), cluster_method=spec["method"],
                              imap_mode=spec["imap"], post_processing=spec["post"], ref=ref)
                if spec["method"] == "external":
                    del kwargs["cluster_method"]          # never looked at when a function is given
                    kwargs["external_function"] = ext_function(spec["ext"], record)
                for name in omit:
                    kwargs.pop(name, None)       # rely on the library's default
                wl.partial_cluster(**kwargs)
            except ZeroDivisionError:
                status = 1
            except AttributeError as e:
                # the handler of ZeroDivisionError in the imap_mode=False construction reads self._tokens
                if "_tokens" not in str(e) or not any(v == "Z" for v in table.values()):
                    raise
                status = 2
            r = {"status": status, "out": [], "cmp": 2, "collisions": 0, "tie_excluded": False, "col": col,
                 "clus": [], "ranged": not (spec.get("ext") or {}).get("wild", False)}
            if spec["method"] in ORACLE_METHODS:
                if any(c is None for c in clus_rec):
                    raise AssertionError("harness: a clustering result could not be recorded")
                r["clus"] = [(M, list(items)) for M, items in clus_rec]
            if status:
                return r
            out = [[(k, [int(x) for x in wl[k, col]]) for k, _ in ws] for ws in view]
            r["out"] = out
            # which comparison of ids is justified (see module docstring)
            collisions, unsafe = 0, False
            for ci, ws in enumerate(out):
                rec = mats[ci] if ci < len(mats) else None
                words = [k for k, ids in ws for _ in ids]
                if rec is None or len(rec[0]) != len(words):
                    continue
                raw, M, cl = rec
                n = len(M)
                if stub is None and spec["method"] == "upgma" and not upgma_safe(raw, M, float(spec["thr"])):
                    unsafe = True
                if spec["post"]:
                    for x in range(n):
                        for y in range(x + 1, n):
                            if words[x] == words[y] and cl.get(x) == cl.get(y):
                                collisions += 1
                                if stub is None and not colmean_safe(raw, M, x, y):
                                    unsafe = True
            r["collisions"] = collisions
            r["tie_excluded"] = unsafe
            r["cmp"] = 2 if stub is not None or not unsafe else 0
            return r

        P.calign = Shim()
        CL.flat_cluster = fc
        CL.mcl = mcl
        try:
            pre = [one_call(spec, "pre%d" % i) for i, spec in enumerate(case.get("pre") or [])]
            main = one_call(case, "pid")
        finally:
            P.calign = saved_calign
            CL.flat_cluster = saved_fc
            CL.mcl = saved_mcl
        res = dict(main)
        res.update(view=view, pre=pre, calls=len(table),
                   table=[(list(a), list(b), d if d == "Z" else str(F(d))) for (a, b), d in table.items()])
        res["tie_excluded"] = main["tie_excluded"] or any(p["tie_excluded"] for p in pre)
        res["collisions"] = main["collisions"] + sum(p["collisions"] for p in pre)
        if main["status"]:
            res.update(order=[], strict=[], loose=[])
            return res
        pid = main["col"]
        derive_ids(wl, pid, case)
        res["order"] = [int(k) for k in wl]
        res["strict"] = [int(wl[k, "strictid"]) for k in wl]
        res["loose"] = [[int(wl[k, "looseid"]) for k, _ in ws] for ws in view]
        return res
    finally:
        lingpy.util.pb = saved_pb
        logging.disable(logging.NOTSET)


# ---------------------------------------------------------------------------------------
# rendering

def pids_lit(out):
    return L.lst([L.lst([L.pair(L.nat(k), L.natlist(ids)) for k, ids in ws]) for ws in out])


def cfg_lit(spec):
    # stub stream: the decimal the harness wrote; real stream: the float the code compares with
    return L.record("config", [L.b(spec["imap"]), L.b(spec["method"] == "ward"), COQ_METH[spec["method"]],
                               L.q(F(spec["thr"])), L.b(spec["post"])])


def ores_lit(d):
    return "ZeroDiv" if d == "Z" else "(Dist %s)" % L.q(F(d))


def wl_lit(view):
    return L.lst([L.lst([L.pair(L.nat(k), L.lst([L.pair(L.z(s), L.z(a)) for s, a in toks])) for k, toks in ws])
                  for ws in view])


def table_lit(table):
    return L.lst([L.pair(L.pair(L.zlist(a), L.zlist(b)), ores_lit(d)) for a, b, d in table])


def clus_lit(clus):
    return L.lst([L.pair(L.qmat(M), L.lst([L.pair(L.nat(i), L.nat(v)) for i, v in items])) for M, items in clus])


def call_lit(spec, r):
    return L.record("call", [cfg_lit(spec), L.nat(r["cmp"]), L.nat(r["status"]), pids_lit(r["out"]),
                             clus_lit(r["clus"]), L.b(r["ranged"])])


def render(case, res):
    return L.record("partial_case", [
        wl_lit(res["view"]), table_lit(res["table"]),
        L.lst([call_lit(s, r) for s, r in zip(case.get("pre") or [], res["pre"])]),
        call_lit(case, res),
        L.natlist(res["order"]), L.natlist(res["strict"]),
        L.lst([L.natlist(r) for r in res["loose"]]),
    ])


BITS = {0: "correspondence: partial ids of the model differ from the implementation's (or raised/returned differs) "
           "in some call of the history",
        1: "one id per morpheme: a word is missing or has a number of ids different from its number of morphemes",
        2: "an identifier is shared between two concepts",
        3: "post-processing on, but two morphemes of one word have the same identifier",
        4: "correspondence: strict/loose ids of the model differ from add_cognate_ids",
        5: "strict ids are not equal exactly for identical id sequences",
        6: "loose ids are not the connected components of 'shares a partial id' per concept (or shared between concepts)",
        7: "correspondence: the converter model (wordlist.rc class of the column + x.split()/int()) gives another "
           "cell than the one the wordlist loaded from the file",
        9: "a source id cell, as loaded from the file, is not the list of integers that was written",
        8: "the clustering routine (mcl / external function) returned a dictionary outside its contract "
           "(a position without id, or an id outside 1..n)"}


def nontrivial(case, res):
    """Non-trivial: the run returned, and in some concept at least two morphemes share an id while
    at least two different ids occur (a merge happened and not everything was merged)."""
    if res["status"]:
        return False
    for ws in res["out"]:
        ids = [x for _, l in ws for x in l]
        if 1 < len(set(ids)) < len(ids):
            return True
    return False


def _thr_out(t):
    return str(t) if isinstance(t, F) else t


def _thr_in(t):
    return F(t) if isinstance(t, str) else t


def jsonable(case, res=None):
    c = dict(case)
    c["rows"] = [[l, co, list(t)] for l, co, t in case["rows"]]
    c["thr"] = _thr_out(case["thr"])
    c["pre"] = [dict(s, thr=_thr_out(s["thr"])) for s in case.get("pre") or []]
    if res is not None:
        c["impl"] = {k: res[k] for k in ("status", "out", "order", "strict", "loose", "cmp", "collisions",
                                         "tie_excluded", "calls")}
        c["impl"]["pre"] = [{k: r[k] for k in ("status", "out", "cmp")} for r in res["pre"]]
    return c


def from_json(c):
    case = dict(c)
    case["rows"] = [(l, co, list(t)) for l, co, t in c["rows"]]
    case["thr"] = _thr_in(c["thr"])
    case["pre"] = [dict(s, thr=_thr_in(s["thr"])) for s in c.get("pre") or []]
    case.setdefault("omit", [])
    case.setdefault("input", "dict")
    case.setdefault("cells", None)
    case.pop("impl", None)
    return case


def shrink(case):
    rows = case["rows"]
    cells = case.get("cells")
    pre = case.get("pre") or []
    for i in range(len(pre)):
        c = dict(case)
        c["pre"] = pre[:i] + pre[i + 1:]
        yield c
    if len(rows) > 1:
        for i in range(len(rows)):
            c = dict(case)
            c["rows"] = rows[:i] + rows[i + 1:]
            if cells:
                c["cells"] = cells[:i] + cells[i + 1:]
            yield c
    if cells:
        c = dict(case)
        c["cells"] = None
        yield c
        for i, spec in enumerate(cells):
            if spec != "list":
                c = dict(case)
                c["cells"] = cells[:i] + ["list"] + cells[i + 1:]
                yield c
    if case.get("input") == "file":
        c = dict(case)
        c["input"] = "dict"
        yield c
    for i, (l, co, t) in enumerate(rows):
        if "+" in t:
            j = len(t) - 1 - t[::-1].index("+")
            for nt in (t[:j], t[j + 1:]):
                if nt:
                    c = dict(case)
                    c["rows"] = rows[:i] + [(l, co, nt)] + rows[i + 1:]
                    if cells:
                        c["cells"] = cells[:i] + ["list"] + cells[i + 1:]
                    yield c
    if case["stub"] and case["stub"]["zerodiv"]:
        c = dict(case)
        c["stub"] = dict(case["stub"], zerodiv=0)
        yield c
    for name in case.get("omit", []):
        c = dict(case)
        c["omit"] = [n for n in case["omit"] if n != name]
        yield c


def classify(case, res):
    nm = max((sum(len(l) for _, l in ws) for ws in res["out"]), default=0)
    tags = ["stream=" + case["stream"], "method=" + case["method"], "imap=%s" % case["imap"],
            "post=%s" % case["post"], "status=%d" % res["status"], "cmp=%d" % res["cmp"],
            "max_morphemes_per_concept=%d" % nm, "input=" + case.get("input", "dict"),
            "history_length=%d" % (1 + len(case.get("pre") or []))]
    tags += ["omitted=" + n for n in case.get("omit", [])]
    if not case.get("omit"):
        tags.append("all_keywords_passed")
    for spec in case.get("cells") or []:
        tags.append("cell=" + (spec if isinstance(spec, str) else "lists_edited_in_place:" + spec[0]))
    for s in case.get("pre") or []:
        diff = [k for k in ("imap", "post", "method", "thr") if s[k] != case[k]]
        tags.append("earlier_call_differs_in=" + ("+".join(diff) or "nothing"))
    if res["collisions"]:
        tags.append("same_word_collision")
    if res["tie_excluded"]:
        tags.append("tie_excluded_from_equality")
    if any(t and (t[0] == "+" or t[-1] == "+" or any(a == b == "+" for a, b in zip(t, t[1:])))
           for _, _, t in case["rows"]):
        tags.append("irregular_separators")
    if any(len(set(map(tuple, _split(t)))) < len(_split(t)) for _, _, t in case["rows"]):
        tags.append("repeated_morpheme_in_word")
    cells = {}
    for l, co, _ in case["rows"]:
        cells[(l, co)] = cells.get((l, co), 0) + 1
    if any(v > 1 for v in cells.values()):
        tags.append("synonyms")
    langs = {l for l, _, _ in case["rows"]}
    concs = {co for _, co, _ in case["rows"]}
    if len(cells) < len(langs) * len(concs):
        tags.append("missing_cells")
    return tags


def _split(t):
    return [m.split() for m in " ".join(t).split(" + ")]


def model_expr(case, res, rundir):
    from ..lib import coqrun
    if case["method"] in ORACLE_METHODS:
        return "not evaluated here (clustering routine replayed as an oracle; see the case code)"
    try:
        return coqrun.eval_expr(rundir, "replay_model", IMPORTS,
                                "partial_cluster (table_dist %s) %s %s" % (
                                    table_lit(res["table"]), cfg_lit(case), wl_lit(res["view"])))
    except Exception as e:      # only a convenience for the replay file
        return "not evaluated: %s" % e


# ---------------------------------------------------------------------------------------
# add_cognate_ids on arbitrary source id lists (dictionary cells, or cells read from a file)

SRC_COLUMNS = ["cogids", "partial_ids", "pcogsets"]      # list-of-integer columns of wordlist.rc
SRC_ALIASES = {"cogids": ["COGIDS"], "partial_ids": ["PARTIALIDS", "PARTIAL_IDS", "PARTIALID"],
               "pcogsets": ["PARTIAL_COGNATE_SETS", "PCOGSET", "PCS"]}


def blanks(rng, ids):
    """The ids as a file cell: single blanks, or irregular ones (doubled, leading, trailing)."""
    if not ids:
        return rng.choice(["", "", " "])
    kind = rng.choice(["regular", "regular", "double", "triple", "lead", "trail", "mixed"])
    if kind == "regular":
        return " ".join(map(str, ids))
    if kind in ("double", "triple"):
        return ("  " if kind == "double" else "   ").join(map(str, ids))
    if kind == "lead":
        return " " + " ".join(map(str, ids))
    if kind == "trail":
        return " ".join(map(str, ids)) + " "
    out = str(ids[0])
    for x in ids[1:]:
        out += rng.choice([" ", "  ", "   "]) + str(x)
    return out


def d_gen_case(rng, big=False):
    nconc = rng.choice([1, 2, 2, 3])
    nlang = rng.choice([2, 3, 4] + ([5, 6] if big else []))
    shared_pool = rng.random() < 0.4          # ids reused across concepts
    digits = rng.random() < 0.25              # ids whose decimal spellings concatenate ambiguously
    rows = []
    for c in range(nconc):
        base = 0 if shared_pool else 10 * c
        pool = [base + i for i in range(1, rng.choice([2, 3, 4, 6]))]
        if digits:
            pool = rng.sample([1, 2, 11, 12, 21, 22, 111, 112, 121, 211], rng.choice([3, 4, 6]))
        for l in range(nlang):
            r = rng.random()
            nw = 0 if r < 0.15 else (2 if r > 0.85 else 1)
            for _ in range(nw):
                n = rng.choice([0, 1, 1, 2, 2, 3])
                ids = [rng.choice(pool) for _ in range(n)]
                rows.append(("L%d" % l, "c%d" % c, ids))
    if not rows:
        rows.append(("L0", "c0", [1]))
    rng.shuffle(rows)
    case = {"stream": "derive", "rows": rows, "omit": ["idtype"] if rng.random() < 0.3 else [],
            "input": "file" if rng.random() < 0.5 else "dict", "loose_first": rng.random() < 0.4}
    if case["input"] == "file":
        case["column"] = rng.choice(SRC_COLUMNS)
        case["header"] = rng.choice(SRC_ALIASES[case["column"]])
        case["cellstr"] = [blanks(rng, ids) for _, _, ids in rows]
    return case


def d_run_impl(case):
    import logging
    import lingpy
    from lingpy.compare import partial as P
    from tqdm import tqdm
    saved_pb = lingpy.util.pb
    lingpy.util.pb = functools.partial(tqdm, leave=False, disable=True)
    logging.disable(logging.CRITICAL)
    try:
        if case.get("input", "dict") == "file":
            col = case["column"]
            cellstr = case.get("cellstr") or [" ".join(map(str, ids)) for _, _, ids in case["rows"]]
            src_obj = load_wordlist(case, ["doculect", "concept", "tokens", case["header"]],
                                    [[l, c, "t a", s] for (l, c, _), s in zip(case["rows"], cellstr)])
        else:
            col = "src"
            src_obj = load_wordlist(case, ["doculect", "concept", "tokens", "src"],
                                    [[l, c, ["t", "a"], list(ids)] for l, c, ids in case["rows"]])
        wl = P.Partial(src_obj, check=False)
        cells = []
        if case.get("input", "dict") == "file":
            for i, (_, _, ids) in enumerate(case["rows"]):
                cell = wl[i + 1, col]
                ok = isinstance(cell, list) and all(isinstance(x, int) and not isinstance(x, bool) for x in cell)
                cells.append((i + 1, cellstr[i], [int(x) for x in cell] if ok else None))
        derive_ids(wl, col, case)
        src, loose = [], []
        for c in wl.rows:
            ks = wl.get_list(row=c, flat=True)
            # the ids as the caller wrote them (not read back from the object)
            src.append([(int(k), [int(x) for x in case["rows"][int(k) - 1][2]]) for k in ks])
            loose.append([int(wl[k, "looseid"]) for k in ks])
        return {"src": src, "order": [int(k) for k in wl], "strict": [int(wl[k, "strictid"]) for k in wl],
                "loose": loose, "cells": cells, "header": case.get("header", "").lower()}
    finally:
        lingpy.util.pb = saved_pb
        logging.disable(logging.NOTSET)


def d_render(case, res):
    return L.record("derive_case", [pids_lit(res["src"]), L.natlist(res["order"]), L.natlist(res["strict"]),
                                    L.lst([L.natlist(r) for r in res["loose"]]),
                                    L.zlist([ord(ch) for ch in res["header"]]),
                                    L.lst([L.pair(L.nat(k), L.pair(L.zlist([ord(ch) for ch in s]), L.opt(l, L.zlist)))
                                           for k, s, l in res["cells"]])])


def d_nontrivial(case, res):
    """Non-trivial: some concept has a loose component of more than one word and at least two components."""
    return any(1 < len(set(r)) < len(r) for r in res["loose"])


def d_jsonable(case, res=None):
    c = dict(case)
    c["rows"] = [[l, co, list(t)] for l, co, t in case["rows"]]
    if res is not None:
        c["impl"] = res
    return c


def d_from_json(c):
    case = dict(c)
    case["rows"] = [(l, co, list(t)) for l, co, t in c["rows"]]
    case.setdefault("omit", [])
    case.setdefault("input", "dict")
    case.pop("impl", None)
    return case


def d_shrink(case):
    rows = case["rows"]
    cs = case.get("cellstr")
    if len(rows) > 1:
        for i in range(len(rows)):
            c = dict(case)
            c["rows"] = rows[:i] + rows[i + 1:]
            if cs:
                c["cellstr"] = cs[:i] + cs[i + 1:]
            yield c
    if cs:
        for i, (l, co, t) in enumerate(rows):
            reg = " ".join(map(str, t))
            if cs[i] != reg:
                c = dict(case)
                c["cellstr"] = cs[:i] + [reg] + cs[i + 1:]
                yield c
    for i, (l, co, t) in enumerate(rows):
        for j in range(len(t)):
            c = dict(case)
            nt = t[:j] + t[j + 1:]
            c["rows"] = rows[:i] + [(l, co, nt)] + rows[i + 1:]
            if cs:
                c["cellstr"] = cs[:i] + [" ".join(map(str, nt))] + cs[i + 1:]
            yield c


def d_classify(case, res):
    tags = ["stream=derive", "words=%d" % len(case["rows"]), "input=" + case.get("input", "dict")]
    tags += ["omitted=" + n for n in case.get("omit", [])]
    if case.get("input") == "file":
        tags.append("column=" + case["header"])
        if any(s != " ".join(map(str, t)) for s, (_, _, t) in zip(case.get("cellstr") or [], case["rows"])):
            tags.append("irregular_blanks_in_id_cell")
    if any(not t for _, _, t in case["rows"]):
        tags.append("empty_id_list")
    joined = {}
    for _, _, t in case["rows"]:
        joined.setdefault("".join(map(str, t)), set()).add(tuple(t))
    if any(len(v) > 1 for v in joined.values()):
        tags.append("different_sequences_same_digit_string")
    if any(x <= len(case["rows"]) for _, _, t in case["rows"] for x in t):
        tags.append("partial_id_equal_to_a_row_id")
    ids = {}
    for _, co, t in case["rows"]:
        for x in t:
            ids.setdefault(x, set()).add(co)
    if any(len(v) > 1 for v in ids.values()):
        tags.append("id_shared_between_concepts")
    return tags


derive = types.SimpleNamespace(
    IMPORTS=IMPORTS, BITS=BITS, run_impl=d_run_impl, render=d_render, nontrivial=d_nontrivial,
    jsonable=d_jsonable, from_json=d_from_json, shrink=d_shrink, classify=d_classify)
