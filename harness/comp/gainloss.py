"""Component: gain-loss mapping (lingpy.compare.phylogeny.get_gls, PhyBo._get_GLS,
PhyBo._get_GLS_top_down, PhyBo.get_GLS).  Generators, implementation runners, Gallina
case rendering.  Used by C07 and C08.

A tree is a nested tuple (id, [children]); node `id` is named "n<id>" in the Newick string
handed to cogent.  The rose tree given to the Coq model is read back from the cogent object
through Children / Name (so the tie covers the Newick reader's view of the tree as well)."""
import itertools
import random
import types

from ..lib import coqlit as L

IMPORTS = ("From LV Require Import Common.Cases GainLoss.RoseTree GainLoss.Replay GainLoss.GetGls "
           "GainLoss.Parsimony GainLoss.GetGLSr GainLoss.TopDown GainLoss.PhyBoGlue GainLoss.PhyBoRows "
           "GainLoss.GainLossExec.")

WEIGHTS = [(1, 1), (2, 1), (1, 2), (3, 2), (2, 3), (1, 3), (5, 1), (3, 1),
           # large and non-commensurable pairs (the model is exact over Z): partial weights on both sides of
           # 100 / 1000, ratios that integer division would change
           (70, 30), (40, 25), (5, 3), (7, 3), (5, 2), (100, 1), (1, 100), (999, 1000), (30, 70)]


# ----------------------------------------------------------------------------
# trees

def leaves(t):
    return [t[0]] if not t[1] else [x for c in t[1] for x in leaves(c)]


def nodes(t):
    return [t[0]] + [x for c in t[1] for x in nodes(c)]


def nm(i, style=None):
    """Name of node i.  style None: 'n<i>'.  'nfd': a name with a combining mark in DEcomposed spelling
    (u + U+0308), used identically in the Newick string and the taxa list.  'mixed': upper / lower case
    initial by parity (case-sensitive and case-insensitive sort orders of the languages then differ)."""
    if style == "nfd":
        return "Zu\u0308r%d" % i
    if style == "mixed":
        return ("N%d" if i % 2 else "n%d") % i
    return "n%d" % i


def newick(t, style=None):
    def go(u):
        return ("(" + ",".join(go(c) for c in u[1]) + ")" if u[1] else "") + nm(u[0], style)
    return go(t) + ";"


def relabel(shape, ids):
    """shape: nested lists ([] = leaf); ids: iterator of distinct ints (preorder assignment)."""
    i = next(ids)
    return (i, [relabel(c, ids) for c in shape])


def shapes(n, _memo={}):
    """All ordered rooted tree shapes with n leaves whose internal nodes have >= 2 children."""
    if n in _memo:
        return _memo[n]
    if n == 1:
        res = [[]]
    else:
        res = []
        for k in range(2, n + 1):
            for comp in compositions(n, k):
                for kids in itertools.product(*[shapes(m) for m in comp]):
                    res.append(list(kids))
    _memo[n] = res
    return res


def compositions(n, k):
    if k == 1:
        yield (n,)
        return
    for first in range(1, n - k + 2):
        for rest in compositions(n - first, k - 1):
            yield (first,) + rest


def random_shape(rng, n, multi, unary=0.0):
    """Random shape with n leaves; multi: probability of a node with more than two children."""
    if n == 1:
        s = []
    else:
        k = 2
        if n > 2 and rng.random() < multi:
            k = rng.randint(3, min(n, 5))
        cuts = sorted(rng.sample(range(1, n), k - 1))
        sizes = [b - a for a, b in zip([0] + cuts, cuts + [n])]
        s = [random_shape(rng, m, multi, unary) for m in sizes]
    if unary and rng.random() < unary:
        s = [s]                      # a unary internal node above
    return s


def random_tree(rng, n, multi, unary=0.0, shuffle=True):
    s = random_shape(rng, n, multi, unary)
    cnt = count_nodes(s)
    ids = list(range(cnt))
    if shuffle:
        rng.shuffle(ids)
    return relabel(s, iter(ids))


def count_nodes(s):
    return 1 + sum(count_nodes(c) for c in s)


def load(t, style=None):
    from lingpy.thirdparty import cogent as cg
    return cg.LoadTree(treestring=newick(t, style))


def nid(name):
    """Inverse of nm for every style.  A name that nm cannot have produced (e.g. a renormalised spelling)
    gets a number no node has, so that events on it are rejected."""
    import re
    m = re.fullmatch(r"(?:n|N|Zu\u0308r)(\d+)", name)
    return int(m.group(1)) if m else 10 ** 6 + sum(map(ord, name))


def read_back(node):
    """cogent tree -> nested tuple, through the API the anchored code uses."""
    return (nid(node.Name), [read_back(c) for c in node.Children])


def tree_lit(t):
    return "(Node %s %s)" % (L.z(t[0]), L.lst([tree_lit(c) for c in t[1]]))


def story_lit(ev):
    return L.lst([L.pair(L.z(a), L.z(b)) for a, b in ev])


def pat_lit(taxa, paps):
    return L.lst([L.pair(L.z(a), L.z(b)) for a, b in zip(taxa, paps)])


# ----------------------------------------------------------------------------
# optional keywords are left out now and then; the model then runs with the DOCUMENTED defaults
# (docstrings of get_gls / PhyBo._get_GLS / PhyBo._get_GLS_top_down / PhyBo.get_GLS), written down here
# and never read from the function signatures

DOC_DEFAULTS = {
    "get_gls": {"gpl": 1, "g": 1, "l": 1, "push": True, "md": 0},
    "glsr": {"gpl": 1, "push": True, "md": 0},
    "topdown": {"mode": 1, "md": 0},
}
# which keyword of the call a case field feeds
KEYWORD = {"gpl": "gpl", "g": "weights", "l": "weights", "push": "push_gains", "md": "missing_data",
           "mode": "mode"}


def choose_omit(rng, case, p=0.3):
    """With probability p leave out a random non-empty subset of the optional keywords; the case fields that
    feed an omitted keyword are set to the documented default."""
    if rng.random() >= p:
        return case
    dflt = DOC_DEFAULTS[case["kind"]]
    kws = sorted({KEYWORD[f] for f in dflt})
    omit = [k for k in kws if rng.random() < 0.5] or [rng.choice(kws)]
    for f, v in dflt.items():
        if KEYWORD[f] in omit:
            case[f] = v
    case["omit"] = omit
    return case


def keywords(case, **kw):
    return {k: v for k, v in kw.items() if k not in case.get("omit", ())}


# ----------------------------------------------------------------------------
# get_gls (stand-alone)

def gen_pattern(rng, n, pmiss):
    """At least one presence; a mix of dense / sparse / missing-heavy patterns."""
    kind = rng.choice(["uniform", "sparse", "dense", "clade"])
    p1 = {"uniform": 0.5, "sparse": 0.25, "dense": 0.75, "clade": 0.5}[kind]
    pap = []
    for _ in range(n):
        if rng.random() < pmiss:
            pap.append(-1)
        else:
            pap.append(1 if rng.random() < p1 else 0)
    if 1 not in pap:
        pap[rng.randrange(n)] = 1
    return pap


def gen_gls_case(rng, nmin=3, nmax=9):
    n = rng.randint(nmin, nmax)
    multi = rng.choice([0.0, 0.0, 0.3, 0.6])
    unary = rng.choice([0.0, 0.0, 0.0, 0.08])
    t = random_tree(rng, n, multi, unary)
    tips = leaves(t)
    taxa = list(tips)
    rng.shuffle(taxa)
    pmiss = rng.choice([0.0, 0.0, 0.15, 0.3, 0.5])
    paps = gen_pattern(rng, n, pmiss)
    if rng.random() < 0.15:
        # presences concentrated in one clade (the common ancestor is then below the root)
        sub = rng.choice([c for c in t[1]])
        inside = set(leaves(sub))
        paps = [p if x in inside else (0 if p == 1 else p) for x, p in zip(taxa, paps)]
        if 1 not in paps:
            paps[taxa.index(rng.choice(sorted(inside)))] = 1
    g, l = rng.choice(WEIGHTS)
    gpl = rng.choice([0, 1, 1, 2, 3, n, n, n + 3])
    md = rng.choice([0, -1])
    c = {"kind": "get_gls", "tree": t, "taxa": taxa, "paps": paps, "gpl": gpl, "g": g, "l": l,
         "push": rng.random() < 0.5, "md": md,
         "arr": rng.choice(["list", "list", "numpy", "numpy", "tuple"])}
    choose_omit(rng, c)
    if rng.random() < 0.1:
        c["names"] = "nfd"
    # the same pattern object is handed to get_gls a second time (missing_data always explicit there)
    c["md2"] = (-1 - c["md"]) if rng.random() < 0.7 else c["md"]
    return c


def gen_gls_wide_case(rng, k=None):
    """One unresolved node with k >= 10 two-leaf clades: more than 1000 combinations of child scenarios."""
    k = k or rng.choice([10, 10, 11])
    kids, i = [], 1
    for _ in range(k):
        kids.append((1000 + i, [(i, []), (i + 1, [])]))
        i += 2
    t = (0, kids)
    taxa = leaves(t)
    paps = []
    for _ in range(k):
        paps += list(rng.choice([(1, 0), (1, 0), (0, 1), (1, 0), (1, -1), (1, 0)]))
    g, l = rng.choice([(2, 1), (3, 1), (5, 3), (70, 30), (7, 3)])
    md = rng.choice([0, -1])
    return {"kind": "get_gls", "tree": t, "taxa": taxa, "paps": paps, "gpl": rng.choice([2 * k, 1]), "g": g, "l": l,
            "push": rng.random() < 0.5, "md": md, "md2": md, "arr": "list"}


def exhaustive_gls_cases(nleaves, configs, pattern_values=(1, 0, -1)):
    """All ordered tree shapes with nleaves leaves x all patterns with a presence x configs."""
    for s in shapes(nleaves):
        t = relabel(s, iter(range(100)))
        tips = leaves(t)
        for paps in itertools.product(pattern_values, repeat=nleaves):
            if 1 not in paps:
                continue
            for (g, l, gpl, push, md) in configs:
                if md == 0 and -1 in paps and (gpl, push) != (configs[0][2], configs[0][3]):
                    continue         # with md = 0 a missing leaf is an absent leaf: keep one config only
                c = {"kind": "get_gls", "tree": t, "taxa": list(tips), "paps": list(paps), "gpl": gpl,
                     "g": g, "l": l, "push": push, "md": md}
                # documented defaults are passed by leaving the keyword out
                omit = [kw for kw, is_default in (("missing_data", md == 0), ("gpl", gpl == 1),
                                                  ("push_gains", push is True), ("weights", (g, l) == (1, 1)))
                        if is_default and (kw == "missing_data" or len(paps) % 2)]
                if omit:
                    c["omit"] = omit
                yield c


def config_grid(weights, gpls, pushes=(True, False), mds=(0, -1)):
    return [(g, l, gpl, push, md) for (g, l) in weights for gpl in gpls for push in pushes for md in mds]


class ArgumentMutated(AssertionError):
    pass


def run_get_gls(case):
    """Two calls on the SAME pattern object (list, tuple or numpy array) with missing_data = md, md2.
    The caller's pattern must be unchanged after each call; both results go to the model comparison,
    which uses the original pattern."""
    from lingpy.compare.phylogeny import get_gls
    tree = load(case["tree"], case.get("names"))
    taxa = [nm(i, case.get("names")) for i in case["taxa"]]
    orig = list(case["paps"])
    kind = case.get("arr", "list")
    if kind == "numpy":
        import numpy as np
        paps = np.array(orig)
    elif kind == "tuple":
        paps = tuple(orig)
    else:
        paps = list(orig)
    md2 = case.get("md2", case["md"])
    outs = []
    for k, md in enumerate((case["md"], md2)):
        if k == 1 and md2 == case["md"] and kind == "list":
            outs.append(outs[0])                 # nothing new to observe: skip the second call
            break
        kw = keywords(case, gpl=case["gpl"], weights=(case["g"], case["l"]), push_gains=case["push"],
                      missing_data=md)
        if k == 1:
            kw["missing_data"] = md
        out = get_gls(paps, taxa, tree, **kw)
        if [int(x) for x in paps] != orig:
            raise ArgumentMutated("get_gls modified the caller's pattern (%s): %r -> %r (call %d, missing_data=%d)"
                                  % (kind, orig, [int(x) for x in paps], k + 1, md))
        outs.append([(nid(a), int(b)) for a, b in out])
    return {"tree": read_back(tree), "out": outs[0], "out2": outs[1]}


def render_get_gls(case, res):
    return L.record("gls_case", [
        tree_lit(res["tree"]), pat_lit(case["taxa"], case["paps"]), L.z(case["gpl"]), L.z(case["g"]),
        L.z(case["l"]), L.b(case["push"]), L.z(case["md"]), story_lit(res["out"]),
        L.z(case.get("md2", case["md"])), story_lit(res["out2"])])


# ----------------------------------------------------------------------------
# PhyBo._get_GLS (modes 'w', 'r') and PhyBo._get_GLS_top_down, called unbound on a stub that has
# exactly what the methods read: .tree, .taxa, ._existing_taxa_and_paps

def stub(tree, taxa):
    from lingpy.compare.phylogeny import PhyBo
    s = types.SimpleNamespace(tree=tree, taxa=taxa)
    s._existing_taxa_and_paps = PhyBo._existing_taxa_and_paps.__get__(s)
    return s


def gen_tree_pattern(rng, nmin, nmax, min_pres=1):
    n = rng.randint(nmin, nmax)
    multi = rng.choice([0.0, 0.0, 0.3, 0.6])
    t = random_tree(rng, n, multi, 0.0)          # no unary nodes: _get_GLS / top-down order nodes by tip count
    taxa = leaves(t)
    rng.shuffle(taxa)
    pmiss = rng.choice([0.0, 0.0, 0.15, 0.3, 0.5])
    paps = gen_pattern(rng, n, pmiss)
    while paps.count(1) < min_pres:
        paps[rng.randrange(n)] = 1
    if rng.random() < 0.15:
        sub = rng.choice([c for c in t[1]])
        inside = set(leaves(sub))
        if len(inside) >= min_pres:
            paps = [p if x in inside else (0 if p == 1 else p) for x, p in zip(taxa, paps)]
            ins = [i for i, x in enumerate(taxa) if x in inside]
            while paps.count(1) < min_pres:
                paps[rng.choice(ins)] = 1
    return t, taxa, paps


def gen_glsr_case(rng, nmin=3, nmax=8):
    t, taxa, paps = gen_tree_pattern(rng, nmin, nmax)
    c = {"kind": "glsr", "tree": t, "taxa": taxa, "paps": paps,
         "gpl": rng.choice([1, 1, 2, 2, 3, len(taxa)]), "push": rng.random() < 0.5, "md": rng.choice([0, -1])}
    if rng.random() < 0.5:
        c["rmode"] = "w"
        c["r"] = list(rng.choice(WEIGHTS))
    else:
        c["rmode"] = "r"
        c["r"] = rng.choice([1, 2, 3, 3, 4, 5, 6, -1, -2, -3, -4, len(taxa)])
    choose_omit(rng, c)
    if rng.random() < 0.1:               # mode and r left out as well: documented 'w' and (1, 1)
        c["rmode"], c["r"] = "w", [1, 1]
        c["omit"] = sorted(set(c.get("omit", [])) | {"mode", "r"})
    return c


def exhaustive_glsr_cases(nleaves, modes, gpls=(1, 2), pushes=(True,), mds=(0, -1)):
    for s in shapes(nleaves):
        t = relabel(s, iter(range(100)))
        tips = leaves(t)
        for paps in itertools.product((1, 0, -1), repeat=nleaves):
            if 1 not in paps:
                continue
            for (rmode, r) in modes:
                for gpl in gpls:
                    for push in pushes:
                        for md in mds:
                            if md == 0 and -1 in paps:
                                continue
                            yield {"kind": "glsr", "tree": t, "taxa": list(tips), "paps": list(paps),
                                   "gpl": gpl, "push": push, "md": md, "rmode": rmode,
                                   "r": list(r) if rmode == "w" else r}


def run_glsr(case):
    from lingpy.compare.phylogeny import PhyBo
    tree = load(case["tree"], case.get("names"))
    taxa = [nm(i, case.get("names")) for i in case["taxa"]]
    r = tuple(case["r"]) if case["rmode"] == "w" else case["r"]
    res = {"tree": read_back(tree)}
    try:
        out = PhyBo._get_GLS(stub(tree, taxa), list(case["paps"]),
                             **keywords(case, mode=case["rmode"], r=r, gpl=case["gpl"], push_gains=case["push"],
                                        missing_data=case["md"]))
        res["out"] = [(nid(a), int(b)) for a, b in out]
    except (KeyError, ValueError, IndexError) as e:     # too tight a restriction: documented guard
        res["out"] = None
        res["error"] = type(e).__name__
    return res


def render_glsr(case, res):
    mode = ("(ModeW %s %s)" % (L.z(case["r"][0]), L.z(case["r"][1])) if case["rmode"] == "w"
            else "(ModeR %s)" % L.z(case["r"]))
    return L.record("glsr_case", [
        tree_lit(res["tree"]), pat_lit(case["taxa"], case["paps"]), mode, L.z(case["gpl"]), L.b(case["push"]),
        L.z(case["md"]), L.opt(res["out"], story_lit)])


def gen_td_case(rng, nmin=3, nmax=9):
    # the PhyBo glue answers single-presence patterns itself: at least two presences here
    t, taxa, paps = gen_tree_pattern(rng, nmin, nmax, min_pres=2)
    return choose_omit(rng, {"kind": "topdown", "tree": t, "taxa": taxa, "paps": paps,
                             "mode": rng.choice([1, 2, 2, 3, 3, 4, 5]), "md": rng.choice([0, -1])}, p=0.2)


def exhaustive_td_cases(nleaves, modes=(1, 2, 3, 4), mds=(0, -1)):
    for s in shapes(nleaves):
        t = relabel(s, iter(range(100)))
        tips = leaves(t)
        for paps in itertools.product((1, 0, -1), repeat=nleaves):
            if paps.count(1) < 2:
                continue
            for mode in modes:
                for md in mds:
                    if md == 0 and -1 in paps:
                        continue
                    yield {"kind": "topdown", "tree": t, "taxa": list(tips), "paps": list(paps),
                           "mode": mode, "md": md}


def run_td(case):
    from lingpy.compare.phylogeny import PhyBo
    tree = load(case["tree"], case.get("names"))              # a fresh tree object: lowestCommonAncestor leaves marks behind
    taxa = [nm(i, case.get("names")) for i in case["taxa"]]
    out = PhyBo._get_GLS_top_down(stub(tree, taxa), list(case["paps"]),
                                  **keywords(case, mode=case["mode"], missing_data=case["md"]))
    return {"tree": read_back(tree), "out": [(nid(a), int(b)) for a, b in out]}


def render_td(case, res):
    return L.record("td_case", [
        tree_lit(res["tree"]), pat_lit(case["taxa"], case["paps"]), L.z(case["mode"]), L.z(case["md"]),
        L.opt(res["out"], story_lit)])


# ----------------------------------------------------------------------------
# PhyBo.get_GLS on a small generated dataset (wordlist file + tree), three modes

def gen_phybo_case(rng):
    n = rng.randint(4, 7)
    t = random_tree(rng, n, rng.choice([0.0, 0.3, 0.6]), 0.0)
    langs = leaves(t)
    rows, wid, cog = [], 1, 1
    for ci in range(rng.randint(3, 6)):
        have = [x for x in langs if rng.random() > rng.choice([0.0, 0.2, 0.4])] or langs[:1]
        k = rng.randint(1, 3)
        ids = [cog + j for j in range(k)]
        if rows and rng.random() < 0.3:
            ids[0] = rng.choice(rows)[3]          # a cognate set spanning two concepts
        for x in have:
            cid = rng.choice(ids)
            rows.append((wid, x, ci, cid))
            wid += 1
            r = rng.random()
            if r < 0.2:                           # a synonym in the same cognate set: two reflexes
                rows.append((wid, x, ci, cid))
                wid += 1
            elif r < 0.3:                         # a synonym in another cognate set of the concept
                rows.append((wid, x, ci, rng.choice(ids)))
                wid += 1
        cog += k
    seen = {r[1] for r in rows}
    for x in langs:                  # the tree's tips must be the wordlist's languages
        if x not in seen:
            rows.append((wid, x, 0, rows[0][3]))
            wid += 1
    g, l = rng.choice(WEIGHTS)
    c = {"kind": "phybo", "tree": t, "rows": rows,
         "weighted": call_omit(rng, "weighted", {"g": g, "l": l, "gpl": rng.choice([1, 2, n, n + 2]),
                                                 "push": rng.random() < 0.5, "md": rng.choice([0, -1])}),
         "restriction": call_omit(rng, "restriction", {"r": rng.choice([2, 3, 4, 5]), "gpl": rng.choice([1, 2, 3]),
                                                       "push": rng.random() < 0.5, "md": rng.choice([0, -1])}),
         "topdown": call_omit(rng, "topdown", {"r": rng.choice([1, 2, 3, 4]), "md": rng.choice([0, -1])}),
         "singletons": rng.random() < 0.5,
         # the reference tree is handed over as a file or as a Newick string
         "tree_file": rng.random() < 0.5}
    if rng.random() < 0.4:
        c["names"] = "mixed"         # doculect names of mixed case
    if rng.random() < 0.4:
        # the wordlist file carries a tree of its own (@tree line) with another topology and other
        # internal node names: the explicitly given tree is the reference tree of the analysis
        c["embedded"] = tree_over(rng, langs, 100)
    return c


GET_GLS_DEFAULTS = {"g": 1, "l": 1, "r": 3, "gpl": 1, "push": True, "md": 0}     # documented in PhyBo.get_GLS
CALL_KEYWORD = {"g": "ratio", "l": "ratio", "r": "restriction", "gpl": "gpl", "push": "push_gains",
                "md": "missing_data"}


def call_omit(rng, mode, cfg, p=0.3):
    """Leave out optional keywords of PhyBo.get_GLS now and then (also `mode` for the weighted mode, whose
    documented default it is); the configuration then holds the documented defaults."""
    if rng.random() >= p:
        return cfg
    kws = sorted({CALL_KEYWORD[f] for f in cfg})
    omit = [k for k in kws if rng.random() < 0.5] or [rng.choice(kws)]
    for f in cfg:
        if CALL_KEYWORD[f] in omit:
            cfg[f] = GET_GLS_DEFAULTS[f]
    if mode == "weighted" and rng.random() < 0.5:
        omit.append("mode")
    cfg["omit"] = omit
    return cfg


def tree_over(rng, langs, first_internal):
    """A random tree whose leaves are exactly `langs`; internal nodes numbered from first_internal."""
    shape = random_shape(rng, len(langs), rng.choice([0.0, 0.3, 0.6]))
    order = list(langs)
    rng.shuffle(order)
    it_leaf, counter = iter(order), [first_internal]

    def go(sh):
        if not sh:
            return (next(it_leaf), [])
        me = counter[0]
        counter[0] += 1
        return (me, [go(c) for c in sh])
    return go(shape)


def derive_patterns(rows, taxa):
    """Presence / absence / missing derived from the rows of the wordlist, independently of
    Wordlist.get_paps: key "cogid:glid" (glid = 1-based rank of the concept among the sorted concept
    names), 1 = the language has a reflex of that cognate set for that concept, -1 = it has no word for
    the concept at all, 0 = it has a word for the concept but none in the set."""
    concepts = sorted({"c%d" % r[2] for r in rows})
    glid = {c: i + 1 for i, c in enumerate(concepts)}
    words = {}
    for _, lang, con, cid in rows:
        words.setdefault(con, {}).setdefault(lang, set()).add(cid)
    pats = {}
    for con, by_lang in words.items():
        for cid in {c for cs in by_lang.values() for c in cs}:
            pats["%d:%d" % (cid, glid["c%d" % con])] = [
                (1 if cid in by_lang[x] else 0) if x in by_lang else -1 for x in taxa]
    return pats


def phybo_newick(t, style=None):
    """The root must be called 'root' (PhyBo's radial layout looks it up by that name)."""
    return newick(t, style).rsplit(")", 1)[0] + ")root;"


def run_phybo(case):
    import contextlib
    import io
    import logging
    import os
    import shutil
    import tempfile
    from lingpy.compare.phylogeny import PhyBo
    from ..lib import env
    t = case["tree"]
    root = t[0]
    style = case.get("names")
    base = os.path.join(env.BUILD, "run", "phybo_tmp")
    os.makedirs(base, exist_ok=True)
    d = tempfile.mkdtemp(dir=base)
    try:
        path = os.path.join(d, "d.qlc")
        with open(path, "w") as f:
            if case.get("embedded"):
                f.write("@tree:" + phybo_newick(case["embedded"], style) + "\n")
            f.write("ID\tDOCULECT\tCONCEPT\tIPA\tCOGID\n")
            for wid, lang, con, cog in case["rows"]:
                f.write("%d\t%s\tc%d\tw\t%d\n" % (wid, nm(lang, style), con, cog))
        items = []
        logging.disable(logging.CRITICAL)
        with contextlib.redirect_stderr(io.StringIO()):
            tree_arg = phybo_newick(t, style)
            if case.get("tree_file"):
                tree_arg = os.path.join(d, "reference.tre")
                with open(tree_arg, "w") as f:
                    f.write(phybo_newick(t, style))
            phy = PhyBo(path, tree=tree_arg, output_dir=os.path.join(d, "out"),
                        singletons=case["singletons"])

            def name_id(x):
                # the root of whichever tree is called 'root'; a name that is no node of the reference tree
                # keeps a number that no node has (the replay checker then rejects the event)
                if x == "root":
                    return root
                return nid(x)

            def rb(node):
                return (name_id(node.Name), [rb(c) for c in node.Children])

            # the REFERENCE tree: the one the caller passed, read through cogent from the same Newick text,
            # never the tree the object says it uses
            from lingpy.thirdparty import cogent as cg
            tree_read = rb(cg.LoadTree(treestring=phybo_newick(t, style)))
            taxa = [name_id(x) for x in phy.taxa]
            # key "<cogid>:<glid>" -> (cognate id, concept number); glid = rank of the concept name
            concepts = sorted({"c%d" % r[2] for r in case["rows"]})

            def key_ids(cog):
                cid, glid = str(cog).split(":")
                return int(cid), int(concepts[int(glid) - 1][1:])

            paps0 = {cog: [int(x) for x in phy.paps[cog]] for cog in phy.cogs}   # as first built by get_paps
            calls = case.get("calls") or [(m, case[m]) for m in ("weighted", "restriction", "topdown")]
            seen_topdown = False
            for mode, cfg in calls:
                exact = mode != "topdown" and not seen_topdown
                seen_topdown = seen_topdown or mode == "topdown"
                before = {cog: list(phy.paps[cog]) for cog in phy.cogs}
                omit = cfg.get("omit", ())
                if mode == "weighted":
                    kw = {"mode": "weighted", "ratio": (cfg["g"], cfg["l"]), "gpl": cfg["gpl"],
                          "push_gains": cfg["push"], "missing_data": cfg["md"]}
                    glm = "w-%d-%d" % (cfg["g"], cfg["l"])
                elif mode == "restriction":
                    kw = {"mode": "restriction", "restriction": cfg["r"], "gpl": cfg["gpl"],
                          "push_gains": cfg["push"], "missing_data": cfg["md"]}
                    glm = "r-%d" % cfg["r"]
                else:
                    kw = {"mode": "topdown", "restriction": cfg["r"], "missing_data": cfg["md"]}
                    glm = "t-%d" % cfg["r"]
                kw = {k: v for k, v in kw.items() if k not in omit}
                try:
                    phy.get_GLS(force=True, **kw)
                except (KeyError, ValueError, IndexError):
                    if mode == "restriction":
                        continue          # restriction too tight for some pattern: documented guard
                    raise
                for cog in phy.cogs:
                    gls, noo = phy.gls[glm][cog]
                    if noo != sum(e for _, e in gls):
                        raise AssertionError("number of origins is not the number of gains")
                    items.append({"mode": mode, "cfg": dict(cfg), "cog": str(cog), "ids": key_ids(cog),
                                  "paps": before[cog], "paps0": paps0[cog], "exact": exact,
                                  "out": [(name_id(a), int(b)) for a, b in gls]})
        return {"tree": tree_read, "taxa": taxa, "items": items, "cogs": [key_ids(cog) for cog in phy.cogs],
                "out": [x for it in items for x in it["out"]]}
    finally:
        logging.disable(logging.NOTSET)
        shutil.rmtree(d, ignore_errors=True)


def gen_phybo_history_case(rng):
    """One PhyBo object, a sequence of get_GLS calls that re-use the same model names (force=True) with
    different missing_data / gpl / push_gains: every call's results must reproduce the observed patterns
    under THAT call's missing-data convention, and equal the model on the patterns the object held."""
    c = gen_phybo_case(rng)
    c["singletons"] = rng.random() < 0.5
    calls = []
    for _ in range(rng.randint(3, 5)):
        mode = rng.choice(["weighted", "weighted", "restriction", "topdown"])
        cfg = dict(c[mode])
        cfg.pop("omit", None)
        cfg["md"] = rng.choice([0, -1])
        if "gpl" in cfg:
            cfg["gpl"] = rng.choice([1, 2, 3])
            cfg["push"] = rng.random() < 0.5
        keep = {f: cfg[f] for f in ("g", "l", "r") if f in cfg}      # the model name must stay the same
        call_omit(rng, mode, cfg)
        if any(cfg[f] != v for f, v in keep.items()):
            cfg.update(keep)
            cfg["omit"] = [k for k in cfg["omit"] if k not in ("ratio", "restriction")]
        calls.append((mode, cfg))
    # make sure some model name is used with both conventions, missing data treated as such first
    mode = rng.choice(["weighted", "topdown", "restriction"])
    a, b = dict(c[mode]), dict(c[mode])
    for x in (a, b):
        x["omit"] = [k for k in x.get("omit", []) if k != "missing_data"]
    a["md"], b["md"] = -1, 0
    pos = rng.randrange(len(calls) + 1)
    calls[pos:pos] = [(mode, a), (mode, b)]
    # top-down calls last: lowestCommonAncestor on subtrees leaves marks on the shared tree object, after
    # which the next whole-tree call may stop too high (still a correct scenario, but not the model's)
    calls.sort(key=lambda mc: mc[0] == "topdown")
    c["calls"] = calls
    return c


def gen_phybo_weighted_history_case(rng):
    """C08 through the wordlist-driven entry point: one PhyBo object, 3-5 calls of the weighted mode with the
    SAME ratio (hence the same model name) and changing missing_data / gpl / push_gains, force=True.  Every
    stored scenario is compared with the minimum for the pattern derived from the rows."""
    c = gen_phybo_case(rng)
    n = len(leaves(c["tree"]))
    g, l = rng.choice(WEIGHTS + [(1, 1), (1, 1)])
    md = rng.choice([0, -1])
    calls = []
    for k in range(rng.randint(3, 5)):
        cfg = {"g": g, "l": l, "gpl": rng.choice([1, 2, n, n, n + 2]), "push": rng.random() < 0.5, "md": md}
        md = -1 - md if rng.random() < 0.8 else md
        if rng.random() < 0.3:
            omit = [kw for kw in ("gpl", "push_gains", "missing_data", "mode") if rng.random() < 0.4]
            if (g, l) == (1, 1) and rng.random() < 0.5:
                omit.append("ratio")
            for f in ("gpl", "push", "md"):
                if CALL_KEYWORD[f] in omit:
                    cfg[f] = GET_GLS_DEFAULTS[f]
            cfg["omit"] = omit
        calls.append(("weighted", cfg))
    c["calls"] = calls
    return c


def render_phybo(case, res):
    items = []
    for it in res["items"]:
        cfg = it["cfg"]
        if it["mode"] == "weighted":
            m = "(GWeighted %s %s)" % (L.z(cfg["g"]), L.z(cfg["l"]))
        elif it["mode"] == "restriction":
            m = "(GRestriction %s)" % L.z(cfg["r"])
        else:
            m = "(GTopDown %s)" % L.z(cfg["r"])
        items.append(L.record("phybo_item", [
            m, L.z(cfg.get("gpl", 1)), L.b(cfg.get("push", True)), L.z(cfg["md"]), L.z(it["ids"][0]),
            L.z(it["ids"][1]), L.zlist(it["paps0"]), L.zlist(it["paps"]), L.b(it["exact"]), story_lit(it["out"])]))
    rows = L.lst([L.pair(L.pair(L.z(lang), L.z(con)), L.z(cog)) for _, lang, con, cog in case["rows"]])
    return L.record("phybo_case", [tree_lit(res["tree"]), L.zlist(res["taxa"]), rows, L.b(case["singletons"]),
                                   L.lst([L.pair(L.z(a), L.z(b)) for a, b in res["cogs"]]), L.lst(items)])


# ----------------------------------------------------------------------------
# driver interface (dispatch on case["kind"])

RUN = {"get_gls": run_get_gls, "glsr": run_glsr, "topdown": run_td, "phybo": run_phybo}
RENDER = {"get_gls": render_get_gls, "glsr": render_glsr, "topdown": render_td, "phybo": render_phybo}
CASE_TYPES = {"get_gls": ("gls_case", "gls_case_code"), "glsr": ("glsr_case", "glsr_case_code"),
              "topdown": ("td_case", "td_case_code"), "phybo": ("phybo_case", "phybo_case_code")}


def run_impl(case):
    return RUN[case["kind"]](case)


def render(case, res):
    return RENDER[case["kind"]](case, res)


BITS = {0: "correspondence: model output differs from implementation output",
        1: "C07 replay: replaying the returned scenario contradicts a known leaf, or an event names no node / is not 0/1",
        2: "C08: weight of the returned scenario is below the optimum (inconsistent scenario)",
        3: "C08: gpl >= number of leaves but the weight of the returned scenario is not the minimum",
        4: "C08: all leaves below the common ancestor are present but the result is not the single gain there",
        5: "exhaustive enumeration of labellings disagrees with the dynamic programme",
        6: "some node carries both a gain and a loss event",
        7: "PhyBo: a pattern does not have one entry per taxon",
        8: "PhyBo: the pattern get_paps stored differs from the model's coding of the rows (paps_of_rows)",
        9: "PhyBo: phy.cogs is not the set of (non-singleton) cognate sets of the rows"}


def nontrivial(case, res):
    """Non-trivial: the returned scenario has at least two events (not the single-origin shortcut)."""
    return res["out"] is not None and len(res["out"]) >= 2


def jsonable(case, res=None):
    c = dict(case)
    c["tree"] = to_json_tree(case["tree"])
    c["newick"] = newick(case["tree"])
    if case.get("embedded"):
        c["embedded"] = to_json_tree(case["embedded"])
        c["embedded_newick"] = newick(case["embedded"])
    if res is not None:
        r = dict(res)
        if "tree" in r:
            r["tree"] = to_json_tree(r["tree"])
        c["impl"] = r
    return c


def to_json_tree(t):
    return [t[0], [to_json_tree(c) for c in t[1]]]


def from_json_tree(t):
    return (t[0], [from_json_tree(c) for c in t[1]])


def from_json(c):
    case = dict(c)
    case["tree"] = from_json_tree(c["tree"])
    case.pop("impl", None)
    case.pop("newick", None)
    case.pop("embedded_newick", None)
    if case.get("embedded"):
        case["embedded"] = from_json_tree(case["embedded"])
    if case.get("calls"):
        case["calls"] = [(m, cfg) for m, cfg in case["calls"]]
    if case.get("rows"):
        case["rows"] = [tuple(r) for r in case["rows"]]
    return case


def remove_leaf(t, x):
    """Remove leaf x; internal nodes left with one child are contracted, with none removed."""
    if not t[1]:
        return None if t[0] == x else t
    kids = [k for k in (remove_leaf(c, x) for c in t[1]) if k is not None]
    if not kids:
        return None
    if len(kids) == 1 and len(t[1]) > 1:
        return kids[0]
    return (t[0], kids)


def valid(case):
    """The guards of the property / theorems: a presence (two for the top-down method, whose single-presence
    patterns are answered by PhyBo.get_GLS itself), states in {1,0,-1}."""
    if case["kind"] == "phybo":
        return True
    need = 2 if case["kind"] == "topdown" else 1
    return case["paps"].count(1) >= need and all(p in (1, 0, -1) for p in case["paps"])


def shrink(case):
    for c in _shrink(case):
        if valid(c):
            yield c


def _shrink(case):
    if case["kind"] == "phybo":
        cogs = sorted({r[3] for r in case["rows"]})
        if case.get("calls") and len(case["calls"]) > 1:
            for k in range(len(case["calls"])):
                c = dict(case)
                c["calls"] = case["calls"][:k] + case["calls"][k + 1:]
                yield c
        if case.get("embedded") and not case.get("keep_embedded"):
            c = dict(case)
            c.pop("embedded")
            yield c
        langs = {r[1] for r in case["rows"]}
        for cg_ in cogs:                        # drop one cognate set, keeping every language of the tree
            rows = [r for r in case["rows"] if r[3] != cg_]
            if rows and {r[1] for r in rows} == langs:
                c = dict(case)
                c["rows"] = rows
                yield c
        return
    t, taxa, paps = case["tree"], case["taxa"], case["paps"]
    if len(taxa) > 2:
        for i, x in enumerate(taxa):
            rest = [p for j, p in enumerate(paps) if j != i]
            if 1 not in rest:
                continue
            t2 = remove_leaf(t, x)
            if t2 is None or not t2[1]:
                continue
            c = dict(case)
            c["tree"], c["taxa"], c["paps"] = t2, [y for y in taxa if y != x], rest
            yield c
    for i, p in enumerate(paps):
        for v in (0, 1):
            if p != v:
                q = list(paps)
                q[i] = v
                if 1 in q:
                    c = dict(case)
                    c["paps"] = q
                    yield c
    for key, val in (("g", 1), ("l", 1), ("gpl", 1), ("push", True), ("md", 0), ("arr", "list")):
        if key in case and case[key] != val:
            c = dict(case)
            c[key] = val
            yield c


def classify(case, res):
    if case["kind"] == "phybo":
        return ["kind=phybo", "languages=%d" % len(res["taxa"]), "items=%d" % min(len(res["items"]) // 10 * 10, 60),
                "singletons_excluded" if case["singletons"] else "singletons_kept"]
    n = len(case["taxa"])
    out = res.get("out") or []
    if res.get("out") is None:
        return ["kind=" + case["kind"], "raised=" + res.get("error", "?")]
    tags = ["kind=" + case["kind"], "leaves=%d" % n,
            "multifurcating" if any(len(c) > 2 for c in all_child_lists(case["tree"])) else "binary",
            "missing" if -1 in case["paps"] else "no_missing",
            "events=%d" % min(len(out), 6)]
    if "md" in case:
        tags.append("md=%d" % case["md"])
    if case["kind"] == "get_gls":
        tags.append("gpl>=leaves" if case["gpl"] >= n else "gpl<leaves")
    return tags


def all_child_lists(t):
    yield t[1]
    for c in t[1]:
        yield from all_child_lists(c)


def model_expr(case, res, rundir):
    from ..lib import coqrun
    if case["kind"] != "get_gls":
        return None
    return coqrun.eval_expr(
        rundir, "replay_model", IMPORTS,
        "(get_gls %s %s %s %s %s %s %s, opt %s %s %s %s %s)" % (
            pat_lit(case["taxa"], case["paps"]), tree_lit(res["tree"]), L.z(case["gpl"]), L.z(case["g"]),
            L.z(case["l"]), L.b(case["push"]), L.z(case["md"]),
            L.z(case["g"]), L.z(case["l"]), L.z(case["md"]), pat_lit(case["taxa"], case["paps"]),
            tree_lit(res["tree"])))
