"""Component: the tree builders upgma / neighbor (lingpy.algorithm.clustering ->
lingpy.algorithm.cython._cluster).  Generator, implementation runner (records the
tree matrix the builder fills and parses the Newick strings), Gallina case
rendering.  Used by C09."""
import copy
import itertools
import re
from fractions import Fraction as F

from ..lib import coqlit as L

IMPORTS = ("From LV Require Import Common.Cases Cluster.Nwk Cluster.Upgma Cluster.Neighbor "
           "Cluster.TreeBuildExec.")
EPS = F(1, 2 ** 30)
GRID = [F(k, 8) for k in range(0, 17)]

# ----------------------------------------------------------------------
# trees: ("L", i) | ("N", left, bl, right, br)


def leaves(t):
    return [t[1]] if t[0] == "L" else leaves(t[1]) + leaves(t[3])


def ldepths(t):
    if t[0] == "L":
        return [(t[1], F(0))]
    return [(x, t[2] + d) for x, d in ldepths(t[1])] + [(x, t[4] + d) for x, d in ldepths(t[3])]


def tree_metric(t, n):
    m = [[F(0)] * n for _ in range(n)]

    def go(t):
        if t[0] == "L":
            return
        go(t[1])
        go(t[3])
        for x, dx in ldepths(t[1]):
            for y, dy in ldepths(t[3]):
                m[x][y] = m[y][x] = t[2] + dx + t[4] + dy
    go(t)
    return m


def random_shape(rng, labels):
    """random binary tree shape over the given labels (random joining)"""
    nodes = [("L", x) for x in labels]
    while len(nodes) > 1:
        i, j = rng.sample(range(len(nodes)), 2)
        a, b = nodes[i], nodes[j]
        nodes = [x for k, x in enumerate(nodes) if k not in (i, j)] + [("N", a, None, b, None)]
    return nodes[0]


def gen_ultrametric(rng, n):
    """binary tree with strictly increasing node heights (multiples of 1/16): the distance of
    two leaves is twice the height of their lca."""
    labels = list(range(n))
    rng.shuffle(labels)
    nodes = [(("L", x), F(0)) for x in labels]
    incs = rng.choice([[F(1, 16), F(1, 8), F(1, 4)], [F(1, 8)], [F(1, 16), F(1, 8), F(3, 16), F(1, 4), F(1, 2)]])
    while len(nodes) > 1:
        i, j = rng.sample(range(len(nodes)), 2)
        (a, ha), (b, hb) = nodes[i], nodes[j]
        h = max(ha, hb) + rng.choice(incs)
        nodes = [x for k, x in enumerate(nodes) if k not in (i, j)] + [(("N", a, h - ha, b, h - hb), h)]
    return nodes[0][0]


def gen_additive(rng, n):
    """random binary tree with positive branch lengths (multiples of 1/8)"""
    labels = list(range(n))
    rng.shuffle(labels)
    lens = rng.choice([[F(k, 8) for k in range(1, 25)], [F(k, 4) for k in range(1, 9)], [F(1, 2), F(1)]])

    def dress(t):
        if t[0] == "L":
            return t
        return ("N", dress(t[1]), rng.choice(lens), dress(t[3]), rng.choice(lens))

    def dress_long(t):
        """every cherry gets one or two long pendant edges, all other edges are short: sibling
        leaves are then farther apart than the average pair"""
        if t[0] == "L":
            return t
        short, long_ = [F(1, 8), F(1, 4)], [F(2), F(5, 2), F(3), F(25, 8)]
        if t[1][0] == "L" and t[3][0] == "L":
            which = rng.choice(["l", "r", "both"])
            return ("N", t[1], rng.choice(long_ if which in ("l", "both") else short),
                    t[3], rng.choice(long_ if which in ("r", "both") else short))
        return ("N", dress_long(t[1]), rng.choice(short), dress_long(t[3]), rng.choice(short))
    shape = random_shape(rng, labels)
    return dress_long(shape) if rng.random() < 0.3 else dress(shape)


def relabel_cherry(rng, t, n):
    """rename the leaves so that some pair of sibling leaves is (1, x), x in {0, 2, 3} - cluster
    member lists like [1, 2] next to a taxon 12 (needs n >= 13)"""
    cherries = []

    def find(t):
        if t[0] == "N":
            if t[1][0] == "L" and t[3][0] == "L":
                cherries.append((t[1][1], t[3][1]))
            find(t[1])
            find(t[3])
    find(t)
    p, q = rng.choice(cherries)
    x = rng.choice([0, 2, 3])
    perm = {p: 1, q: x, 1: p, x: q}
    if p == x or q == 1:               # keep it a permutation in the overlapping cases
        perm = {p: 1, q: x}
        rest_src = [k for k in range(n) if k not in (p, q)]
        rest_dst = [k for k in range(n) if k not in (1, x)]
        perm.update(dict(zip(rest_src, rest_dst)))

    def ren(t):
        if t[0] == "L":
            return ("L", perm.get(t[1], t[1]))
        return ("N", ren(t[1]), t[2], ren(t[3]), t[4])
    out = ren(t)
    assert sorted(leaves(out)) == list(range(n))
    return out


def gen_big_case(rng):
    """13-16 taxa, a cherry (1, x): tracer keys / node numbers with two digits"""
    algo = rng.choice(["nj", "nj", "upgma"])
    n = rng.choice([13, 14, 15, 16])
    container = rng.choice(["list", "numpy"])
    names = rng.sample(NAME_POOL, n) if rng.random() < 0.5 else None
    if rng.random() < 0.5:
        t = relabel_cherry(rng, gen_ultrametric(rng, n), n)
        return make_case(algo, "ultra", tree_metric(t, n), t, container, names)
    t = relabel_cherry(rng, gen_additive(rng, n), n)
    return make_case(algo, "additive", tree_metric(t, n), t if algo == "nj" else None, container, names)


def gen_arbitrary(rng, n):
    kind = rng.choice(["grid", "ties", "coarse", "quarters"])
    if kind == "grid":
        vals = GRID[1:]
    elif kind == "ties":
        vals = rng.sample(GRID[1:], 2)
    elif kind == "coarse":
        vals = [F(1, 2), F(1), F(0)]
    else:
        vals = [F(k, 4) for k in range(1, 8)]
    m = [[F(0)] * n for _ in range(n)]
    for i in range(n):
        for j in range(i + 1, n):
            m[i][j] = m[j][i] = rng.choice(vals)
    return m


def prune(t, x):
    """remove leaf x (relabelling the leaves above it); None if t is that leaf"""
    def ren(i):
        return i - 1 if i > x else i

    def go(t):
        if t[0] == "L":
            return None if t[1] == x else ("L", ren(t[1]))
        l, r = go(t[1]), go(t[3])
        if l is None:
            return ("up", r, t[4])
        if r is None:
            return ("up", l, t[2])
        bl, br = t[2], t[4]
        if l[0] == "up":
            l, bl = l[1], bl + l[2]
        if r[0] == "up":
            r, br = r[1], br + r[2]
        return ("N", l, bl, r, br)
    res = go(t)
    if res is None:
        return None
    return res[1] if res[0] == "up" else res


# ----------------------------------------------------------------------
# exact Neighbor-Joining decisions (margin certificate, DESIGN 2.1)

def nj_certified(m):
    """Run the exact algorithm on Fractions; True iff at every step either the float
    arithmetic of the implementation is exact (N-2 a power of two: the divergences are
    dyadic) or the minimal criterion value is attained by one pair only and is at least
    1e-9 below the next one."""
    m = [list(r) for r in m]
    n = len(m)
    while n >= 3:
        avg = [sum(r) / (n - 2) for r in m]
        sc = [(m[j][i] - avg[j] - avg[i], i, j) for i in range(n) for j in range(n) if i < j]
        best = min(s for s, _, _ in sc)
        a, b = next((i, j) for s, i, j in sc if s == best)
        if (n - 2) & (n - 3):           # N-2 is not a power of two
            others = [s for s, i, j in sc if (i, j) != (a, b)]
            if min(others) - best < F(1, 10 ** 9):
                return False
        keys = [k for k in range(n) if k != b]
        dab = m[a][b]
        new = [[F(0)] * (n - 1) for _ in range(n - 1)]
        for i, x in enumerate(keys):
            for j, y in enumerate(keys):
                if i < j:
                    if x == a:
                        v = ((m[a][y] + m[b][y]) - dab) / 2
                    elif y == a:
                        v = ((m[a][x] + m[b][x]) - dab) / 2
                    else:
                        v = m[x][y]
                    new[i][j] = new[j][i] = v
        m, n = new, n - 1
    return True


# ----------------------------------------------------------------------
# cases

# taxon names: everything clustering.upgma / neighbor accept (check_taxon_names forbids only
# "():;,"): blanks, dots, digits, case variants, underscores, quotes, non-ASCII letters
NAME_POOL = ["Old High German", "Mid. Dutch", "German", "german", "GERMAN", "Old_High German", "t 1", "2nd  lang.",
             "x.y", "O'odham", "Ewe-1", "\u00c9w\u00e9", "\u00d1and\u00fa", "\u0420\u0443\u0441\u0441\u043a\u0438\u0439",
             "a b c", "A b", "0.5", "e5", "Proto-Indo European", "l\u00e4nsi suomi", "7", "No. 7", "-", "+1.0",
             "Old_Norse", "a_b_c", "_lead", "trail_", "x__y", "Proto_Slavic"]
# composed (NFC) and decomposed (NFD) spellings of the same name are DIFFERENT taxon names: the harness
# compares names code point by code point and never normalises
TWINS = [("Z\u00fcrich", "Zu\u0308rich"), ("S\u00e3o Tom\u00e9", "Sa\u0303o Tome\u0301"), ("\u00c5land", "A\u030aland"),
         ("Vi\u1ec7t", "Vie\u0323\u0302t"), ("caf\u00e9_au_lait", "cafe\u0301_au_lait"), ("\u00d1u", "N\u0303u")]
NAME_POOL += [x for pair in TWINS for x in pair]


def plain_names(n):
    return ["t%d" % i for i in range(n)]


def make_case(algo, kind, m, gen=None, container="list", names=None):
    n = len(m)
    exact = (kind == "ultra" and algo == "upgma") or n <= 2
    return {"algo": algo, "kind": kind, "n": n, "matrix": m, "gen": gen,
            "eps": F(0) if exact else EPS, "container": container,
            "names": list(names) if names is not None else plain_names(n)}


def gen_case(rng, max_n):
    algo = rng.choice(["upgma", "nj"])
    kind = rng.choice(["ultra", "ultra", "additive", "additive", "arb", "arb"])
    lo = 2
    n = rng.choice([lo, 3, 3, 4, 4, 5, 5, 6, 6, 7, 7, 8, 9, 10, 11, 12])
    n = max(lo, min(n, max_n))
    container = rng.choice(["list", "numpy"])
    names = rng.sample(NAME_POOL, n) if rng.random() < 0.5 else None
    if names is not None and n >= 2 and rng.random() < 0.3:
        # an NFC/NFD twin pair side by side
        tw = list(rng.choice(TWINS))
        rng.shuffle(tw)
        rest = [x for x in names if x not in tw][:n - 2]
        names = tw + rest
        rng.shuffle(names)
    if kind == "ultra":
        t = gen_ultrametric(rng, n)
        return make_case(algo, kind, tree_metric(t, n), t, container, names)
    if kind == "additive":
        t = gen_additive(rng, n)
        # an additive tree is a generating tree for NJ only
        return make_case(algo, kind, tree_metric(t, n), t if algo == "nj" else None, container, names)
    return make_case(algo, kind, gen_arbitrary(rng, n), None, container, names)


def exhaustive_cases(n_max=4, vals=(F(1, 2), F(1), F(3, 2))):
    k = 0
    for n in range(1, n_max + 1):
        pairs = [(i, j) for i in range(n) for j in range(i + 1, n)]
        for combo in itertools.product(vals, repeat=len(pairs)):
            m = [[F(0)] * n for _ in range(n)]
            for (i, j), v in zip(pairs, combo):
                m[i][j] = m[j][i] = v
            k += 1
            for algo in ("upgma", "nj"):
                # alternate the container and the kind of names over the enumeration
                yield make_case(algo, "exh", m, None, "numpy" if (k // 4) % 2 else "list",
                                NAME_POOL[k % 7:k % 7 + n] if (k // 8) % 2 else None)


# ----------------------------------------------------------------------
# running the implementation

def parse_newick(s, names, foreign, standard=False):
    """Parse a Newick string by its structural characters "(),:;" only (lingpy prints labels
    unquoted, so a label is whatever stands between them - blanks included, nothing is
    stripped).  A leaf label is mapped to the index of the taxon with exactly that name; a
    label that is not one of the given names gets a number >= len(names) (recorded in
    `foreign`), so that the leaf checker in Coq rejects it."""
    pos = [0]

    def text():
        if standard and pos[0] < len(s) and s[pos[0]] == "'":
            # quoted label: literal, '' stands for one quote
            out = []
            pos[0] += 1
            while True:
                assert pos[0] < len(s), s
                if s[pos[0]] == "'":
                    if s[pos[0] + 1:pos[0] + 2] == "'":
                        out.append("'")
                        pos[0] += 2
                        continue
                    pos[0] += 1
                    return "".join(out)
                out.append(s[pos[0]])
                pos[0] += 1
        st = pos[0]
        while pos[0] < len(s) and s[pos[0]] not in "(),:;":
            pos[0] += 1
        return s[st:pos[0]].replace("_", " ") if standard else s[st:pos[0]]

    def node():
        if pos[0] < len(s) and s[pos[0]] == "(":
            pos[0] += 1
            ch = [edge()]
            while pos[0] < len(s) and s[pos[0]] == ",":
                pos[0] += 1
                ch.append(edge())
            assert pos[0] < len(s) and s[pos[0]] == ")", s
            pos[0] += 1
            assert text() == "", s            # lingpy prints no inner labels
            return ("N", ch)
        name = text()
        if name not in names:
            if name not in foreign:
                foreign.append(name)
            return ("L", len(names) + foreign.index(name))
        return ("L", names[name])

    def edge():
        t = node()
        ln = None
        if pos[0] < len(s) and s[pos[0]] == ":":
            pos[0] += 1
            ln = text()
            F(ln)                              # must be a decimal number
        return (t, ln)
    t = node()
    assert s[pos[0]:] == ";", s
    return t


def run_impl(case):
    """Run the current /repo implementation; returns the recorded tree matrix and the two
    parsed Newick strings."""
    from lingpy.algorithm import clustering
    from lingpy.algorithm.cython import _cluster
    n = case["n"]
    fm = [[float(x) for x in r] for r in case["matrix"]]
    taxa = list(case.get("names") or plain_names(n))
    assert len(set(taxa)) == n == len(taxa)
    names = {t: i for i, t in enumerate(taxa)}
    foreign = []

    def fresh():
        if case.get("container", "list") == "numpy":
            import numpy
            return numpy.array(fm, dtype=numpy.float64)
        return copy.deepcopy(fm)
    inner = "_upgma" if case["algo"] == "upgma" else "_neighbor"
    outer = clustering.upgma if case["algo"] == "upgma" else clustering.neighbor
    orig = getattr(_cluster, inner)
    recorded = []
    depth = [0]

    def wrapper(clusters, matrix, tree_matrix, *a, **k):
        if depth[0] == 0:
            recorded.append(tree_matrix)
        depth[0] += 1
        try:
            return orig(clusters, matrix, tree_matrix, *a, **k)
        finally:
            depth[0] -= 1
    setattr(_cluster, inner, wrapper)
    try:
        s_len = outer(fresh(), list(taxa), distances=True)
        s_top = outer(fresh(), list(taxa), distances=False)
    finally:
        setattr(_cluster, inner, orig)
    assert len(recorded) == 2, "the builder was not called once per call"
    rows = [[int(r[0]), int(r[1]), F(float(r[2])), F(float(r[3]))] for r in recorded[0]]
    rows2 = [[int(r[0]), int(r[1]), F(float(r[2])), F(float(r[3]))] for r in recorded[1]]
    assert rows == rows2, "two runs on the same matrix filled different tree matrices"
    # more entry points: the generic converter on the recorded tree matrix, and the tree OBJECTS
    # lingpy builds from the builders' Newick with its own parser
    from lingpy.thirdparty.cogent import LoadTree
    t2_top = _cluster._tree2nwk(copy.deepcopy(recorded[0]), list(taxa), False)
    t2_len = _cluster._tree2nwk(copy.deepcopy(recorded[0]), list(taxa), True)
    calc = "upgma" if case["algo"] == "upgma" else "neighbor"
    o_len = clustering.matrix2tree(fresh(), list(taxa), tree_calc=calc, distances=True)
    o_top = clustering.matrix2tree(fresh(), list(taxa), tree_calc=calc, distances=False)
    o_rt = LoadTree(treestring=s_len)

    def name_idx(name):
        if name in names:
            return names[name]
        if name not in foreign:
            foreign.append(name)
        return len(names) + foreign.index(name)

    def obj_tree(node):
        if not node.Children:
            return ("L", name_idx(node.Name))
        # Length is the printed decimal parsed to a double; hand over its shortest decimal form
        # (differs from the double by < 1e-16, covered by obj_slack in TreeBuildExec.v)
        return ("N", [(obj_tree(ch), None if ch.Length is None else repr(float(ch.Length)))
                      for ch in node.Children])
    # the Newick the tree objects serialise to (standard escaping: blank <-> '_', quoted labels literal)
    objs_len = [obj_tree(o_len), parse_newick(str(o_len), names, foreign, standard=True)]
    objs_top = [obj_tree(o_top)]
    tips = []
    for o in (o_len, o_top, o_rt):
        tips.append([name_idx(x) for x in o.getTipNames()])
        tips.append([name_idx(x) for x in o.taxa])
    res = {"rows": rows, "newick": s_top, "newick_len": s_len,
           "tree2nwk": t2_top, "tree2nwk_len": t2_len,
           "t2n": parse_newick(t2_top, names, foreign), "t2nd": parse_newick(t2_len, names, foreign),
           "objs_len": objs_len, "objs_top": objs_top, "tips": tips,
           "matrix2tree_str": [str(o_len), str(o_top)],
           "nwk": parse_newick(s_top, names, foreign), "nwkd": parse_newick(s_len, names, foreign),
           "foreign_leaf_names": foreign}
    if case["algo"] == "nj":
        res["certified"] = nj_certified(case["matrix"])
    else:
        res["certified"] = True
    return res


# ----------------------------------------------------------------------
# rendering

def tree_lit(t):
    if t[0] == "L":
        return "(Leaf %s)" % L.nat(t[1])
    return "(Node %s %s %s %s)" % (tree_lit(t[1]), L.q(t[2]), tree_lit(t[3]), L.q(t[4]))


def ntree_lit(t):
    if t[0] == "L":
        return "(NLeaf %s)" % L.nat(t[1])
    return "(NNode %s)" % L.lst([L.pair(ntree_lit(c), L.q(F(ln) if ln is not None else F(0))) for c, ln in t[1]])


def render(case, res):
    return L.record("tb_case", [
        "AUpgma" if case["algo"] == "upgma" else "ANj",
        L.qmat(case["matrix"]),
        L.q(case["eps"]),
        L.b(res["certified"]),
        L.lst([L.pair(L.nat(a), L.nat(b), L.q(c), L.q(d)) for a, b, c, d in res["rows"]]),
        ntree_lit(res["nwk"]),
        ntree_lit(res["nwkd"]),
        L.opt(case["gen"], tree_lit),
        ntree_lit(res["t2n"]),
        ntree_lit(res["t2nd"]),
        L.lst([ntree_lit(o) for o in res["objs_len"]]),
        L.lst([ntree_lit(o) for o in res["objs_top"]]),
        L.lst([L.natlist(t) for t in res["tips"]]),
    ])


BITS = {0: "correspondence: tree matrix differs from the model's, or the Newick nesting/lengths are not those the tree matrix defines",
        1: "structure: not n-1 merges of live nodes, or the Newick tree is not binary / its leaf labels are not the given taxon names exactly once",
        2: "UPGMA ultrametricity: root-to-leaf branch sums differ",
        3: "UPGMA recovery: the clades of the returned tree are not those of the generating ultrametric tree",
        4: "NJ recovery: the splits of the returned tree are not those of the generating additive tree",
        5: "recovery: path sums in the returned tree do not reproduce the input distances",
        6: "premise of C09_nj_recovers_partial refuted on the model: a pair selected along the exact NJ run on this "
           "additive matrix is not a cherry of the current matrix"}


def nontrivial(case, res):
    """At least two merges, i.e. a choice was made."""
    return case["n"] >= 3


def _tree_json(t):
    if t is None:
        return None
    if t[0] == "L":
        return ["L", t[1]]
    return ["N", _tree_json(t[1]), str(t[2]), _tree_json(t[3]), str(t[4])]


def _tree_unjson(t):
    if t is None:
        return None
    if t[0] == "L":
        return ("L", t[1])
    return ("N", _tree_unjson(t[1]), F(t[2]), _tree_unjson(t[3]), F(t[4]))


def jsonable(case, res=None):
    c = dict(case)
    c["matrix"] = [[str(x) for x in r] for r in case["matrix"]]
    c["eps"] = str(case["eps"])
    c["gen"] = _tree_json(case["gen"])
    if res is not None:
        c["impl"] = {"rows": [[a, b, str(x), str(y), float(x), float(y)] for a, b, x, y in res["rows"]],
                     "newick": res["newick"], "newick_len": res["newick_len"],
                     "leaf_names_not_among_the_given_taxa": res["foreign_leaf_names"],
                     "tree2nwk": res["tree2nwk"], "tree2nwk_len": res["tree2nwk_len"],
                     "matrix2tree_str": res["matrix2tree_str"],
                     "nj_margin_certified": res["certified"]}
    return c


def from_json(c):
    case = dict(c)
    case["matrix"] = [[F(x) for x in r] for r in c["matrix"]]
    case["eps"] = F(c["eps"])
    case["gen"] = _tree_unjson(c.get("gen"))
    case.setdefault("container", "list")
    if not case.get("names"):
        case["names"] = plain_names(len(case["matrix"]))
    case.pop("impl", None)
    return case


def shrink(case):
    n = case["n"]
    m = case["matrix"]
    if n > 2:
        for drop in range(n):
            if case["gen"] is not None:
                t = prune(case["gen"], drop)
                yield make_case(case["algo"], case["kind"], tree_metric(t, n - 1), t, case["container"],
                                [x for i, x in enumerate(case["names"]) if i != drop])
            else:
                keep = [i for i in range(n) if i != drop]
                yield make_case(case["algo"], case["kind"], [[m[i][j] for j in keep] for i in keep], None,
                                case["container"], [case["names"][i] for i in keep])
    if case["container"] != "list":
        c = dict(case)
        c["container"] = "list"
        yield c
    if case["names"] != plain_names(n):
        c = dict(case)
        c["names"] = plain_names(n)
        yield c
    if case["gen"] is None:
        for i in range(n):
            for j in range(i + 1, n):
                for v in (F(1), F(1, 2)):
                    if m[i][j] != v:
                        mm = [list(r) for r in m]
                        mm[i][j] = mm[j][i] = v
                        yield make_case(case["algo"], case["kind"], mm, None, case["container"], case["names"])


def classify(case, res):
    out = ["algo=" + case["algo"], "kind=" + case["kind"], "n=%d" % case["n"],
           "%s/%s" % (case["algo"], case["kind"])]
    if case["algo"] == "nj":
        out.append("nj_certified" if res["certified"] else "nj_rejected_by_margin_filter")
        out.append("nj/%s/%s" % (case["kind"], "certified" if res["certified"] else "rejected"))
    if case["gen"] is not None:
        out.append("has_generating_tree")
    out.append("matrix=" + case.get("container", "list"))
    out.append("names=plain" if case["names"] == plain_names(case["n"]) else "names=mixed")
    return out


def model_expr(case, res, rundir):
    from ..lib import coqrun
    m = L.qmat(case["matrix"])
    if case["algo"] == "upgma":
        e = "let m := %s in (upgma_rows (List.length m) (dm m), upgma_tree (List.length m) (dm m))" % m
    else:
        e = "let m := %s in (nj_rows m, nj_tree m)" % m
    return coqrun.eval_expr(rundir, "replay_model", IMPORTS, e)
