"""Component: multiple alignment (lingpy.align.multiple.Multiple, and the per-cognate-set
alignment of lingpy.align.sca.Alignments).  Generator, implementation runner with oracle
replay / oracle substitution, Gallina case rendering.  Used by C04 and C11.

Oracle replay: the pairwise profile aligner (calign.align_profile / talign.align_profile) is
wrapped from outside (module attribute rebound, restored in `finally`); every call of it is
recorded (the two profiles it received, the two aligned index lists it returned) and handed to
the Coq model as a table; the verified checker `pa_table_okb` checks the contract on every
record.  In the *stub* streams the aligner is replaced by a function returning a random valid
alignment (memoised per call of the public method, so it is a function of its arguments).
Guide trees are read from `tree_matrix` (or supplied through `guide_tree=`) and checked with
`valid_merge_orderb`.  Sum-of-pairs scores are always measured with the implementation's own
`sum_of_pairs` (original function object) and reach the model as exact rationals."""
import copy
import random
from fractions import Fraction as F

from ..lib import coqlit as L

_BASE = "From LV Require Import Common.Cases Msa.Profile Msa.Merge Msa.Refine Msa.MsaExec%s.\nOpen Scope nat_scope."
IMPORTS = _BASE % ""
ALM_IMPORTS = _BASE % " Msa.Alignments"
ALMH_IMPORTS = _BASE % " Msa.Alignments Msa.AlignHistory"
FUZZY_IMPORTS = _BASE % " Msa.Alignments Msa.AlignHistory Msa.AlignFuzzy"
SOP_IMPORTS = _BASE % " Msa.Score Msa.ScoreExec"

# token inventory: plain IPA segments all three sound-class models know; several map to the
# same SCA class (p/b, t/d, k/g, ...), tones exercise the restricted-character branch
CONS = ["p", "b", "t", "d", "k", "g", "m", "n", "s", "l", "r", "w", "j", "h", "f", "v", "ts", "th", "ŋ"]
VOWS = ["a", "e", "i", "o", "u", "ə", "ai", "au"]
TONES = ["⁵⁵", "¹", "²¹"]
INVENTORY = CONS + VOWS + TONES

METHODS = ["progressive", "library"]
TREES = ["upgma", "neighbor", "custom"]
MODES = ["global", "overlap", "dialign"]
MODELS = ["sca", "dolgo", "asjp"]
KINDS = ["similar", "clusters", "orphans", "all", "swap"]
COQ_KIND = {"similar": "KSimilar", "clusters": "KClusters", "orphans": "KOrphans", "all": "KAll", "swap": "KSwap"}
COQ_CHECK = {"final": "CheckFinal", "immediate": "CheckImmediate"}
GOPS = [-1, -2, -3, -5, 0]
SCALES = [0.5, 1.0, 0.25, 0.75]
FACTORS = [0.0, 0.25, 0.5, 1.0, 0.3]
GAPWS = [0.0, 0.5, 1.0, 0.25, 1, 0.3, 0.75, 0.5]
THRESHOLDS = [0.5, 0.3, 0.7, 0.1, 0.9, 1.5]


# ----------------------------------------------------------------------------------------------
# generator
def gen_word(rng, lo, hi):
    n = rng.randint(lo, hi)
    w = []
    for i in range(n):
        c = rng.random()
        if c < 0.08:
            w.append(rng.choice(TONES))
        elif (i % 2 == 0) == (rng.random() < 0.8):
            w.append(rng.choice(CONS))
        else:
            w.append(rng.choice(VOWS))
    return w


def mutate(rng, w):
    w = list(w)
    for _ in range(rng.choice([1, 1, 2, 3])):
        c = rng.random()
        if c < 0.35 and len(w) > 1:
            del w[rng.randrange(len(w))]
        elif c < 0.7:
            w.insert(rng.randrange(len(w) + 1), rng.choice(INVENTORY))
        else:
            w[rng.randrange(len(w))] = rng.choice(INVENTORY)
    return w


def gen_seqs(rng, max_n, max_len):
    n = rng.choice([2, 3, 3, 4, 4, 5, 5, 6, 7, 8, 9, 10][: max(4, max_n + 1)])
    n = min(n, max_n)
    style = rng.choice(["family", "family", "random", "unequal", "tiny"])
    base = gen_word(rng, 2, max_len)
    seqs = []
    for _ in range(n):
        c = rng.random()
        if seqs and c < 0.2:
            seqs.append(list(rng.choice(seqs)))                 # exact duplicate
        elif seqs and c < 0.3:
            # same sound classes, different tokens (p/b, t/d, k/g share their class in every model)
            swap = {"p": "b", "b": "p", "t": "d", "d": "t", "k": "g", "g": "k"}
            seqs.append([swap.get(t, t) for t in rng.choice(seqs)])
        elif seqs and c < 0.4:
            # same class string under the coarse models (dolgo: every vowel is V), different under sca/asjp
            vs = {"a": "i", "i": "a", "e": "o", "o": "e", "u": "a", "ə": "u"}
            seqs.append([vs.get(t, t) for t in rng.choice(seqs)])
        elif style == "family":
            seqs.append(mutate(rng, base))
        elif style == "random":
            seqs.append(gen_word(rng, 1, max_len))
        elif style == "unequal":
            seqs.append(gen_word(rng, 1, 2) if rng.random() < 0.5 else gen_word(rng, max_len, max_len + 3))
        else:
            seqs.append(gen_word(rng, 1, 3))
    return seqs


SPLIT = {"th": ["t", "h"], "ts": ["t", "s"], "au": ["a", "u"], "ai": ["a", "i"]}


def add_collision(rng, seqs, max_n):
    """Two different token lists that concatenate to the same string (['th','a'] / ['t','h','a']), in either order:
    under plain-token scoring they are different sequences and must stay so."""
    seqs = [list(s) for s in seqs]
    k = rng.randrange(len(seqs))
    coarse = list(seqs[k])
    if not any(t in SPLIT for t in coarse):
        coarse.insert(rng.randrange(len(coarse) + 1), rng.choice(sorted(SPLIT)))
    fine = [x for t in coarse for x in SPLIT.get(t, [t])]
    pair = [coarse, fine] if rng.random() < 0.5 else [fine, coarse]
    rest = [s for i, s in enumerate(seqs) if i != k]
    while len(rest) + 2 > max(max_n, 2):
        del rest[rng.randrange(len(rest))]
    pos = rng.randrange(len(rest) + 1)
    out = rest[:pos] + [pair[0]] + rest[pos:]
    pos2 = rng.randrange(pos + 1, len(out) + 1)
    return out[:pos2] + [pair[1]] + out[pos2:]


def gen_call(rng):
    kind = rng.choice(["similar", "clusters", "orphans", "all", "all", "swap"])
    c = {"kind": kind}
    if kind == "swap":
        c["swap_penalty"] = rng.choice([-3, -5, -1, 0])
        return c
    c["check"] = "final" if rng.random() < 0.85 else "immediate"
    c["mode"] = rng.choice(MODES)
    c["gop"] = rng.choice(GOPS)
    c["scale"] = rng.choice(SCALES)
    c["factor"] = rng.choice(FACTORS)
    c["gap_weight"] = rng.choice(GAPWS)
    if kind == "clusters":
        c["threshold"] = rng.choice(THRESHOLDS)
    return c


def gen_realign(rng, case):
    """A second prog_align / lib_align on the SAME object, with other keywords (everything that feeds _set_model)."""
    c = {"kind": "realign", "method": rng.choice(METHODS),
         "tree": case["tree"] if rng.random() < 0.6 else rng.choice(TREES), "tree_seed": rng.randrange(1 << 30),
         "mode": rng.choice(MODES),
         "model": rng.choice([m for m in MODELS if m != case["model"]] + MODELS[:1]),
         "classes": case["classes"], "sonar": case["sonar"],
         "scoredict_seed": rng.choice([None, rng.randrange(1 << 30)]), "gop": rng.choice(GOPS),
         "scale": rng.choice(SCALES), "factor": rng.choice(FACTORS), "gap_weight": rng.choice(GAPWS)}
    if rng.random() < 0.3:
        c["classes"] = not c["classes"]
    if rng.random() < 0.3:
        c["sonar"] = not c["sonar"]
    return c


def gen_case(rng, max_n=7, max_len=8, max_calls=4, stub=False, min_distinct=2):
    seqs = gen_seqs(rng, max_n, max_len)
    tries = 0
    while len({tuple(s) for s in seqs}) < min_distinct and tries < 20:
        seqs = gen_seqs(rng, max_n, max_len)
        tries += 1
    sound = rng.random() < 0.75
    classes = sound if rng.random() < 0.8 else not sound
    case = {
        "seqs": seqs,
        "as_strings": rng.random() < 0.3,          # pass 'a b c' strings instead of token lists
        "method": rng.choice(METHODS),
        "tree": rng.choice(TREES),
        "tree_seed": rng.randrange(1 << 30),
        "mode": rng.choice(MODES),
        "model": rng.choice(MODELS),
        "classes": classes,
        "sonar": sound,
        "scoredict_seed": rng.choice([None, rng.randrange(1 << 30)]),
        "gop": rng.choice(GOPS), "scale": rng.choice(SCALES), "factor": rng.choice(FACTORS),
        "gap_weight": rng.choice(GAPWS),
        "calls": [gen_call(rng) for _ in range(rng.randint(0, max_calls))],
        "stub": rng.randrange(1 << 30) if stub else None,
    }
    if rng.random() < 0.07:
        # ten or more distinct sequences: sequence numbers with two digits ('10.1' sorts before '2.1' as a string)
        many = []
        while len(many) < rng.randint(10, 13):
            w = gen_word(rng, 2, 4)
            if w not in many:
                many.append(w)
        if rng.random() < 0.5:
            many.insert(rng.randrange(len(many)), list(rng.choice(many)))
        case["seqs"] = many
        case["calls"] = case["calls"][:2]
    if rng.random() < 0.35:
        for _ in range(rng.choice([1, 1, 2])):
            case["calls"].insert(rng.randrange(len(case["calls"]) + 1), gen_realign(rng, case))
    if rng.random() < (0.15 if classes else 0.5):
        case["seqs"] = add_collision(rng, case["seqs"], max_n)
    if rng.random() < (0.25 if stub else 0.1):
        # token scoring where almost every column scores below zero: the sum-of-pairs score then grows with the
        # gap weight, which separates the two measurements of _iter from each other
        case.update(classes=False, sonar=True, scoredict_seed=rng.randrange(1 << 30), scoredict_kind="hostile")
        case["seqs"] = [gen_word(rng, 1, max_len) for _ in range(rng.randint(3, max(3, min(6, max_n))))]
        if not case["calls"]:
            case["calls"] = [gen_call(rng)]
        for c in case["calls"]:
            if "gap_weight" in c:
                c["gap_weight"] = rng.choice([1.0, 1.0, 0.5])
    return case


# ----------------------------------------------------------------------------------------------
# implementation runner
def random_alignment(rng, M, N):
    """A uniformly-ish random valid alignment of [0..M-1] with [0..N-1] as two index lists."""
    a, b = [], []
    i = j = 0
    pm = rng.choice([0.3, 0.6, 0.85])
    while i < M or j < N:
        c = rng.random()
        if i < M and j < N and c < pm:
            a.append(i); b.append(j); i += 1; j += 1
        elif i < M and (j >= N or c < pm + (1 - pm) / 2):
            a.append(i); b.append("-"); i += 1
        elif j < N:
            a.append("-"); b.append(j); j += 1
    return a, b


def all_alignments(M, N):
    """Every valid alignment of [0..M-1] with [0..N-1] (Delannoy many), in a fixed order."""
    out = []

    def rec(i, j, a, b):
        if i == M and j == N:
            out.append((list(a), list(b)))
            return
        if i < M and j < N:
            rec(i + 1, j + 1, a + [i], b + [j])
        if i < M:
            rec(i + 1, j, a + [i], b + ["-"])
        if j < N:
            rec(i, j + 1, a + ["-"], b + [j])

    rec(0, 0, [], [])
    return out


def all_trees(h):
    """Every valid merge order (tree matrix) for h leaves."""
    def rec(avail, nxt):
        if len(avail) == 1:
            yield []
            return
        for m in avail:
            for n in avail:
                if m != n:
                    rest = [x for x in avail if x not in (m, n)] + [nxt]
                    for t in rec(rest, nxt + 1):
                        yield [[m, n]] + t
    return list(rec(list(range(h)), h))


EXH_SETS = [[["t", "a"], ["t"], ["a", "t"]], [["t"], ["t"], ["a"]], [["t", "a"], ["t", "a", "k"]],
            [["t"], ["a"], ["k", "a"], ["a"]], [["a", "t"], ["a", "t"], ["t"], ["k"]]]


def exhaustive_cases():
    """Small scope, exhaustively: a few tiny sequence sets x EVERY guide tree x EVERY sequence of answers the
    profile aligner could give during prog_align (each answer ranges over all valid alignments)."""
    for seqs in EXH_SETS:
        uniq = []
        for s in seqs:
            if s not in uniq:
                uniq.append(s)
        for tree in all_trees(len(uniq)):
            def rec(k, widths, script):
                if k == len(tree):
                    yield list(script)
                    return
                m, n = tree[k]
                alns = all_alignments(widths[m], widths[n])
                for idx, (a, _) in enumerate(alns):
                    yield from rec(k + 1, widths + [len(a)], script + [idx])
            for script in rec(0, [len(u) for u in uniq], []):
                yield {"seqs": [list(s) for s in seqs], "as_strings": False, "method": "progressive", "tree": "given",
                       "guide_tree": [list(r) for r in tree], "tree_seed": 0, "mode": "global", "model": "sca",
                       "classes": True, "sonar": True, "scoredict_seed": None, "gop": -2, "scale": 0.5, "factor": 0.3,
                       "gap_weight": 0.5, "calls": [], "stub": None, "script": script}


def random_tree(rng, h):
    avail = list(range(h))
    nxt = h
    tree = []
    while len(avail) > 1:
        m, n = rng.sample(avail, 2)
        avail.remove(m)
        avail.remove(n)
        avail.append(nxt)
        nxt += 1
        tree.append([m, n, 0.0, 0.0])
    return tree


class Recorder:
    """Wraps the two profile aligners and Multiple.sum_of_pairs / Multiple._iter."""

    def __init__(self, stub_seed, script=None):
        import lingpy.align.multiple as mm
        self.script = script
        self.ncalls = 0
        self.mm = mm
        self.pa = []            # (profileA, profileB, almA, almB) of the current public call
        self.sop = []           # (matrix copy, gap_weight) of the current public call
        self.idxs = None
        self.memo = {}
        self.rng = random.Random(stub_seed) if stub_seed is not None else None
        self.orig = {}

    def _wrap_pa(self, orig):
        def wrapped(profileA, profileB, *args, **kw):
            pA = [list(c) for c in profileA]
            pB = [list(c) for c in profileB]
            if self.rng is not None or self.script is not None:
                key = (tuple(map(tuple, pA)), tuple(map(tuple, pB)))
                if key not in self.memo and self.script is not None:
                    alns = all_alignments(len(pA), len(pB))
                    k = self.script[self.ncalls] if self.ncalls < len(self.script) else 0
                    self.memo[key] = alns[k % len(alns)]
                    self.ncalls += 1
                elif key not in self.memo:
                    self.memo[key] = random_alignment(self.rng, len(pA), len(pB))
                almA, almB = self.memo[key]
                almA, almB, sim = list(almA), list(almB), 0.0
            else:
                almA, almB, sim = orig(profileA, profileB, *args, **kw)
            self.pa.append((pA, pB, list(almA), list(almB)))
            return almA, almB, sim
        return wrapped

    def __enter__(self):
        mm = self.mm
        self.orig = {"c": mm.calign.align_profile, "t": mm.talign.align_profile,
                     "sop": mm.Multiple.sum_of_pairs, "iter": mm.Multiple._iter}
        mm.calign.align_profile = self._wrap_pa(self.orig["c"])
        mm.talign.align_profile = self._wrap_pa(self.orig["t"])
        rec = self
        osop, oiter = self.orig["sop"], self.orig["iter"]

        def sop(self_, alm_matrix="self", mat=None, gap_weight=0.0, gop=-1):
            m = self_._alm_matrix if alm_matrix == "self" else mat
            rec.sop.append(([list(r) for r in m], gap_weight))
            return osop(self_, alm_matrix, mat, gap_weight, gop)

        def _iter(self_, idx_list, *args, **kw):
            rec.idxs = [list(x) for x in idx_list]
            return oiter(self_, idx_list, *args, **kw)

        mm.Multiple.sum_of_pairs = sop
        mm.Multiple._iter = _iter
        return self

    def __exit__(self, *exc):
        mm = self.mm
        mm.calign.align_profile = self.orig["c"]
        mm.talign.align_profile = self.orig["t"]
        mm.Multiple.sum_of_pairs = self.orig["sop"]
        mm.Multiple._iter = self.orig["iter"]
        return False

    def new_call(self):
        self.pa, self.sop, self.idxs, self.memo = [], [], None, {}

    def score(self, msa, mat, gw):
        return self.orig["sop"](msa, "other", mat, gw)


def cell_int(c):
    if c == "X":
        return None
    i, j = c.split(".")
    return [int(i) - 1, int(j) - 1]


def int_matrix(m):
    return [[cell_int(c) for c in row] for row in m]


def idx_lit(x):
    return L.opt(x, lambda v: v)


SCORER_LIMIT = 0        # entries of Multiple.scorer rendered for the definitional score check (C11 sets 260; 0 = skip)
ALIGN_KEYS = ["method", "tree", "tree_seed", "mode", "model", "classes", "sonar", "scoredict_seed", "scoredict_kind",
              "gop", "scale", "factor", "gap_weight", "guide_tree"]


def run_impl(case):
    import lingpy.align.multiple as mm
    from lingpy.settings import rcParams
    toks = sorted({t for s in case["seqs"] for t in s})
    tcode = {t: i + 1 for i, t in enumerate(toks)}
    seqs = [" ".join(s) for s in case["seqs"]] if case["as_strings"] else [list(s) for s in case["seqs"]]
    # a one-token string without a blank would be re-segmented by ipa2tokens: keep those as lists
    if case["as_strings"] and any(len(s) < 2 for s in case["seqs"]):
        seqs = [list(s) for s in case["seqs"]]
    msa = mm.Multiple(seqs)

    def align_kw(cf):
        kw = dict(model=cf["model"], mode=cf["mode"], gop=cf["gop"], scale=cf["scale"],
                  factor=cf["factor"], gap_weight=cf["gap_weight"], classes=cf["classes"],
                  sonar=cf["sonar"])
        if not cf["classes"] and cf.get("scoredict_seed") is not None:
            r = random.Random(cf["scoredict_seed"])
            sd = {}
            for a in toks:
                for b in toks:
                    # self scores are positive (a zero self-similarity divides by zero in align_pairwise: a guard)
                    if cf.get("scoredict_kind") == "hostile":
                        sd[a, b] = sd[b, a] if (b, a) in sd else (1.0 if a == b else -float(r.randint(3, 9)))
                    else:
                        sd[a, b] = sd[b, a] if (b, a) in sd else float(r.randint(1, 5) if a == b else r.randint(-3, 4))
            kw["scoredict"] = sd
        if cf["tree"] == "given":
            kw["guide_tree"] = [[m, n, 0.0, 0.0] for m, n in cf["guide_tree"]]
        elif cf["tree"] == "custom":
            probe = mm.Multiple(seqs)
            probe._set_model(rcParams[cf["model"]], cf["classes"], False, False, {})
            kw["guide_tree"] = random_tree(random.Random(cf["tree_seed"]), probe.height)
        else:
            kw["tree_calc"] = cf["tree"]
        return kw

    def ext_matrix():
        out = []
        for row in msa.alm_matrix:
            out.append([None if t == "-" else tcode.get(t, 0) for t in row] if isinstance(row, list) else None)
        return out

    tokens = [[tcode[t] for t in s] for s in case["seqs"]]
    epochs = []
    with Recorder(case["stub"], case.get("script")) as rec:

        def do_align(cf):
            """prog_align / lib_align on the SAME object: a new epoch (the class strings, hence the unique
            sequences, may change)."""
            rec.new_call()
            msa.align(cf["method"], **align_kw(cf))
            code = (lambda c: ord(c)) if cf["classes"] else (lambda c: tcode[c])
            epochs.append({"tokens": tokens, "classes": [[code(c) for c in cl] for cl in msa.classes],
                           "sonars": bool(msa._sonars), "tree": [[int(r[0]), int(r[1])] for r in msa.tree_matrix],
                           "pa": [pa_entry(e) for e in rec.pa], "int": int_matrix(msa._alm_matrix),
                           "ext": ext_matrix(), "height": msa.height, "steps": []})

        do_align(case)
        for call in case["calls"]:
            if call["kind"] == "realign":
                do_align(call)
                continue
            gw = call.get("gap_weight", 0.0)
            before_m = [list(r) for r in msa._alm_matrix]
            s_before = rec.score(msa, before_m, gw)
            scorer_tab = None
            if call["kind"] != "swap" and call.get("check") == "final" and len(msa.scorer) <= SCORER_LIMIT:
                # the scoring dictionary that is current during this call (for the definitional score check)
                scorer_tab = [[cell_int(a), cell_int(b), str(F(v))] for (a, b), v in msa.scorer.items()
                              if "." in str(a) and "." in str(b)]
            rec.new_call()
            raised = None
            try:
                if call["kind"] == "swap":
                    msa.swap_check(swap_penalty=call["swap_penalty"])
                else:
                    p = dict(check=call["check"], mode=call["mode"], gop=call["gop"], scale=call["scale"],
                             factor=call["factor"], gap_weight=call["gap_weight"])
                    if call["kind"] == "similar":
                        msa.iterate_similar_gap_sites(**p)
                    elif call["kind"] == "clusters":
                        msa.iterate_clusters(call["threshold"], **p)
                    elif call["kind"] == "orphans":
                        msa.iterate_orphans(**p)
                    else:
                        msa.iterate_all_sequences(**p)
            except Exception as e:  # plain-token mode: TypeError (a guard of the property)
                raised = "%s: %s" % (type(e).__name__, e)
            after_m = [list(r) for r in msa._alm_matrix]
            s_after = rec.score(msa, after_m, gw)
            mats, seen = [], set()
            for m in [before_m, after_m] + [m for m, _ in rec.sop]:
                k = tuple(map(tuple, m))
                if k not in seen and all(c == "X" or "." in str(c) for r in m for c in r):
                    seen.add(k)
                    mats.append(m)
            cand = None
            if call["kind"] != "swap" and call.get("check") == "final" and len(rec.sop) >= 2 and raised is None:
                cand = int_matrix(rec.sop[-1][0])
            epochs[-1]["steps"].append({
                "kind": call["kind"], "check": call.get("check", "final"),
                "idxs": rec.idxs if rec.idxs is not None else [],
                "iter_called": rec.idxs is not None,
                "pa": [pa_entry(e) for e in rec.pa],
                "scores": [[int_matrix(m), str(F(rec.score(msa, m, gw)))] for m in mats],
                "scores0": [[int_matrix(m), str(F(rec.score(msa, m, 0.0)))] for m in mats],
                "raised": raised, "int": int_matrix(after_m), "ext": ext_matrix(),
                "before": str(F(s_before)), "after": str(F(s_after)), "cand": cand,
                "measured_gw": sorted({float(g) for _, g in rec.sop}),
                "gw": str(F(gw)), "scorer": scorer_tab,
            })
    res = dict(epochs[0])
    res["epochs"] = epochs[1:]
    return res


def all_steps(res):
    return [s for e in [res] + res.get("epochs", []) for s in e["steps"]]


def pa_entry(e):
    pA, pB, a, b = e
    return {"A": int_matrix(pA), "B": int_matrix(pB),
            "a": [None if x == "-" else int(x) for x in a], "b": [None if x == "-" else int(x) for x in b]}


# ----------------------------------------------------------------------------------------------
# rendering
def cell_lit(c):
    return "None" if c is None else "Some (%d,%d)" % (c[0], c[1])


def imat_lit(m):
    return L.lst([L.lst([cell_lit(c) for c in row]) for row in m])


def erow_lit(r):
    return L.lst(["None" if c is None else "Some %s" % L.z(c) for c in r])


def emat_lit(m):
    return L.lst(["None" if r is None else "Some %s" % erow_lit(r) for r in m])


def ialn_lit(a):
    return L.lst(["None" if x is None else "Some %d" % x for x in a])


def pa_lit(tab):
    return L.lst(["(Build_pa_entry %s %s %s %s)" % (imat_lit(e["A"]), imat_lit(e["B"]), ialn_lit(e["a"]),
                                                     ialn_lit(e["b"])) for e in tab])


def idxs_lit(idxs):
    return L.lst([L.lst(["%d" % i for i in x]) for x in idxs])


def scores_lit(tab):
    return L.lst(["(%s, %s)" % (imat_lit(m), L.q(F(q))) for m, q in tab])


def step_lit(s):
    return L.record("step", [
        COQ_KIND[s["kind"]], COQ_CHECK[s["check"]], idxs_lit(s["idxs"]), pa_lit(s["pa"]),
        scores_lit(s["scores"]), scores_lit(s["scores0"]), L.b(s["raised"] is not None),
        imat_lit(s["int"]), emat_lit(s["ext"]), L.q(F(s["before"])), L.q(F(s["after"])),
        "None" if s["cand"] is None else "(Some %s)" % imat_lit(s["cand"]),
        L.q(F(s.get("gw", "0"))),
        "None" if s.get("scorer") is None else "(Some %s)" % L.lst(
            ["((%s, %s), %s)" % (cell_lit(a)[5:], cell_lit(b)[5:], L.q(F(v))) for a, b, v in s["scorer"]])])


def render(case, res):
    return L.lst([render_epoch(e) for e in [res] + res.get("epochs", [])])


def render_epoch(res):
    return L.record("msa_case", [
        L.zmat(res["tokens"]), L.zmat(res["classes"]), L.b(res["sonars"]),
        L.lst(["(%d,%d)" % (m, n) for m, n in res["tree"]]), pa_lit(res["pa"]),
        imat_lit(res["int"]), emat_lit(res["ext"]), L.lst([step_lit(s) for s in res["steps"]])])


BITS = {0: "correspondence: model state differs from the implementation's _alm_matrix / alm_matrix after a call "
           "(or one of the two raised and the other did not)",
        1: "oracle contract: a recorded profile alignment is not a valid alignment of the two index lists, "
           "the guide tree is not a valid merge order, or the class strings do not fit the tokens",
        2: "C04: the alignment after a call is not rectangular / lossless / ordered / free of all-gap columns / "
           "duplicate-consistent (msa_okb rejects the implementation's state)",
        3: "C11: sum-of-pairs score after a refinement call (end-of-pass check) is lower than before",
        4: "C11: the end-of-pass candidate scored lower than the previous alignment but the previous alignment "
           "was not restored cell for cell",
        6: "C11: the sum-of-pairs score by the DOCUMENTED definition (model Msa/Score.v on the recorded scoring "
           "dictionary) differs from the value measured with the implementation, or is lower after an end-of-pass "
           "refinement call than before",
        5: "C11: an early-exit call (one index set / fewer than three sequences / one gap profile / swap check) "
           "changed the alignment"}


# ----------------------------------------------------------------------------------------------
# bookkeeping for the driver
def outcome(s):
    """improved / tied / rolled_back / early / raised for one refinement step (final check)."""
    if s["kind"] == "swap":
        return "swap"
    if s["raised"] is not None:
        return "raised"
    if s["check"] != "final":
        return "immediate"
    if s["cand"] is None:
        return "early_exit"
    sb, sa = F(s["before"]), F(s["after"])
    sc = [F(q) for m, q in s["scores"] if m == s["cand"]]
    if sc and sc[0] < sb:
        return "rolled_back"
    if sa == sb:
        return "tied"
    return "improved" if sa > sb else "decreased"


def nontrivial(case, res):
    """C04: at least two unique class strings and a gap somewhere in the final alignment."""
    fin = ([res] + res.get("epochs", []))[-1]
    last = fin["steps"][-1]["ext"] if fin["steps"] else fin["ext"]
    return res["height"] >= 2 and any(c is None for r in last if r for c in r)


def nontrivial_c11(case, res):
    """C11: at least one end-of-pass refinement call whose candidate differs from the alignment before it."""
    for e in [res] + res.get("epochs", []):
        prev = e["int"]
        for s in e["steps"]:
            if s["kind"] != "swap" and s["check"] == "final" and s["cand"] is not None and s["cand"] != prev:
                return True
            prev = s["int"]
    return False


def jsonable(case, res=None):
    c = copy.deepcopy(case)
    if res is not None:
        c["impl"] = res
    return c


def from_json(c):
    case = dict(c)
    case.pop("impl", None)
    return case


def shrink(case):
    if case["calls"]:
        c = copy.deepcopy(case)
        c["calls"] = c["calls"][:-1]
        yield c
        for k in range(len(case["calls"]) - 1):
            c = copy.deepcopy(case)
            del c["calls"][k]
            yield c
    if len(case["seqs"]) > 2:
        for k in range(len(case["seqs"])):
            c = copy.deepcopy(case)
            del c["seqs"][k]
            yield c
    for k, s in enumerate(case["seqs"]):
        if len(s) > 1:
            for cut in (0, len(s) - 1):
                c = copy.deepcopy(case)
                del c["seqs"][k][cut]
                yield c


def classify(case, res):
    out = ["method=" + case["method"], "tree=" + case["tree"], "mode=" + case["mode"],
           "classes=%s/sonar=%s" % (case["classes"], case["sonar"]), "n=%d" % len(case["seqs"]),
           "height=%d" % res["height"],
           "has_duplicates" if len({tuple(s) for s in case["seqs"]}) < len(case["seqs"]) else "no_duplicates",
           "same_class_diff_tokens" if res["height"] < len({tuple(s) for s in case["seqs"]}) else "classes_distinct"]
    if max(map(len, case["seqs"])) >= 4 * min(map(len, case["seqs"])):
        out.append("very_unequal_lengths")
    for s in all_steps(res):
        out.append("call:%s:%s" % (s["kind"], outcome(s)))
    out += ["definitional_check" for st in all_steps(res) if st.get("scorer") is not None]
    for e in res.get("epochs", []):
        out.append("realign:height_changed" if e["height"] != res["height"] else "realign:height_same")
    return out


# ----------------------------------------------------------------------------------------------
# Alignments: per-cognate-set alignment of a whole wordlist
ALM_BITS = {0: "correspondence: the alignment column written by Alignments.align differs from the model's "
               "(sets grouped by cognate id, rows stored by word id, other words unchanged)",
            2: "C04 (Alignments clause): members of a set do not share one length, a stored alignment does not "
               "de-gap to the word's segments, a word outside any multi-member set was changed, or the "
               "alm_matrix of a set violates the Multiple invariant"}


def gen_alm_case(rng, max_words=10, max_len=6):
    ndoc = rng.choice([2, 3, 4])
    docs = ["L%d" % i for i in range(ndoc)]
    rng.shuffle(docs)
    nw = rng.randint(2, max_words)
    ncog = rng.randint(1, max(1, nw // 2 + 1))
    base = {c: gen_word(rng, 1, max_len) for c in range(1, ncog + 1)}
    ids = rng.sample(range(1, 60), nw)
    words = []
    for i in ids:
        cog = rng.choice([0] + list(range(1, ncog + 1)) * 3)
        c = rng.random()
        if cog and c < 0.6:
            toks = mutate(rng, base[cog])
        elif cog and c < 0.75:
            toks = list(base[cog])
        else:
            toks = gen_word(rng, 1, max_len)
        words.append({"id": i, "doc": rng.choice(docs), "concept": "c%d" % rng.randint(1, 3), "cog": cog,
                      "tokens": toks})
    if rng.random() < 0.3:
        # a second cognate set made of the SAME word forms, distributed over the doculects in another order: the two
        # sets are different sets (different row order), whatever their forms
        by_cog = {}
        for w in words:
            if w["cog"]:
                by_cog.setdefault(w["cog"], []).append(w)
        cands = [ms for ms in by_cog.values() if len(ms) >= 2 and len({tuple(m["tokens"]) for m in ms}) >= 2]
        if cands:
            ms = rng.choice(cands)
            forms = [list(m["tokens"]) for m in ms]
            perm = forms[1:] + forms[:1] if rng.random() < 0.5 else forms[::-1]
            new_cog = max(by_cog) + 1
            free = [i for i in range(1, 70) if i not in {w["id"] for w in words}]
            for m, toks, i in zip(ms, perm, rng.sample(free, len(ms))):
                words.append({"id": i, "doc": m["doc"], "concept": "twin", "cog": new_cog, "tokens": toks})
            rng.shuffle(words)
    kw = {"method": rng.choice(METHODS), "tree_calc": rng.choice(["upgma", "neighbor"]), "mode": rng.choice(MODES),
          "gop": rng.choice(GOPS), "scale": rng.choice(SCALES), "factor": rng.choice(FACTORS),
          "gap_weight": rng.choice(GAPWS), "iteration": rng.random() < 0.4, "swap_check": rng.random() < 0.3,
          "model": rng.choice(MODELS)}
    return {"words": words, "kw": kw, "twice": rng.random() < 0.15}


def run_alm_impl(case):
    from lingpy.align.sca import Alignments
    D = {0: ["doculect", "concept", "tokens", "cogid", "ipa"]}
    for w in case["words"]:
        D[w["id"]] = [w["doc"], w["concept"], list(w["tokens"]), w["cog"], "".join(w["tokens"])]
    toks = sorted({t for w in case["words"] for t in w["tokens"]})
    tcode = {t: i + 1 for i, t in enumerate(toks)}
    alm = Alignments(D, ref="cogid")
    alm.align(**case["kw"])
    if case["twice"]:
        alm.align(**case["kw"])

    def row(r):
        return [None if t == "-" else tcode.get(t, 0) for t in r]

    res = {"wl": [], "sets": [], "col": []}
    for k in alm:
        res["wl"].append([int(k), alm.cols.index(alm[k, "doculect"]), int(alm[k, "cogid"]),
                          [tcode[t] for t in alm[k, "tokens"]]])
        res["col"].append([int(k), row(list(alm[k, "alignment"]))])
    for key, v in alm.msa["cogid"].items():
        res["sets"].append([[[tcode[t] for t in s] for s in v["seqs"]], [row(r) for r in v["alignment"]],
                            [int(i) for i in v["ID"]]])
    return res


def render_alm(case, res):
    wl = L.lst(["(Build_word %d %d %d %s)" % (i, d, c, L.zlist(t)) for i, d, c, t in res["wl"]])
    sets = L.lst(["(%s, %s)" % (L.zmat(s), L.lst([erow_lit(r) for r in a])) for s, a, _ in res["sets"]])
    col = L.lst(["(%d, %s)" % (i, erow_lit(r)) for i, r in res["col"]])
    return L.record("alm_case", [wl, sets, col])


def nontrivial_alm(case, res):
    return any(len(s[0]) > 1 and any(c is None for r in s[1] for c in r) for s in res["sets"]) and \
        len(res["sets"]) < len({w[2] for w in res["wl"]})


def shrink_alm(case):
    if len(case["words"]) > 2:
        for k in range(len(case["words"])):
            c = copy.deepcopy(case)
            del c["words"][k]
            yield c
    for k, w in enumerate(case["words"]):
        if len(w["tokens"]) > 1:
            c = copy.deepcopy(case)
            del c["words"][k]["tokens"][-1]
            yield c


def classify_alm(case, res):
    return ["alm:method=" + case["kw"]["method"], "alm:sets=%d" % len(res["sets"]),
            "alm:iteration=%s" % case["kw"]["iteration"], "alm:words=%d" % len(res["wl"])]


# ----------------------------------------------------------------------------------------------
# Alignments: histories of add_alignments / align over several cognate-id columns
REFS = ["cogid", "autoid", "strictid"]
ALMH_BITS = {0: "correspondence: the alignment column after an add_alignments / align call differs from the model's "
                "(sets of the ref of THAT call written by word id, every other word reset to its segments), or one "
                "of the two raised and the other did not",
             1: "the generated initial alignment column does not de-gap to the segments (generator error)",
             2: "C04 (Alignments clause) after a call: a stored alignment does not de-gap to the word's segments, or "
                "after align(ref): members of a multi-member set of that ref do not share one length / a word outside "
                "any multi-member set of that ref differs from its segments / a set's alm_matrix violates the Multiple "
                "invariant"}


def repartition(rng, cogs):
    """A second cognate coding derived from the first: coarser, finer, or unrelated."""
    kind = rng.choice(["merge", "split", "random", "split", "merge"])
    ids = sorted({c for c in cogs if c})
    out = list(cogs)
    if kind == "merge" and len(ids) >= 2:
        a, b = rng.sample(ids, 2)
        out = [a if c == b else c for c in cogs]
        if rng.random() < 0.5:                      # ... and pull in an unassigned word
            z = [i for i, c in enumerate(out) if c == 0]
            if z:
                out[rng.choice(z)] = a
    elif kind == "split" and ids:
        a = rng.choice(ids)
        new = max(ids) + 1
        members = [i for i, c in enumerate(cogs) if c == a]
        for i in members:
            if rng.random() < 0.5:
                out[i] = new
        if len(members) > 1 and all(out[i] == a for i in members):
            out[members[-1]] = new                  # at least one word leaves the set
    else:
        hi = max(ids + [1]) + 1
        out = [rng.choice([0] + list(range(1, hi + 1))) for _ in cogs]
    return out


def stale_gaps(rng, toks):
    """The tokens with gaps left over from an older alignment (possibly trailing, possibly none)."""
    row = list(toks)
    for _ in range(rng.choice([0, 1, 1, 2, 3])):
        row.insert(rng.choice([len(row), len(row), rng.randrange(len(row) + 1)]), "-")
    return row


def gen_almh_case(rng, max_words=9, max_len=5):
    base = gen_alm_case(rng, max_words, max_len)
    nref = rng.choice([2, 2, 3])
    cols = [[w["cog"] for w in base["words"]]]
    for _ in range(nref - 1):
        cols.append(repartition(rng, rng.choice(cols)))
    words = []
    for k, w in enumerate(base["words"]):
        w = dict(w)
        w.pop("cog")
        w["cogs"] = [c[k] for c in cols]
        words.append(w)
    case = {"words": words, "nref": nref, "default": rng.randrange(nref), "alignment": None, "calls": []}
    if rng.random() < 0.35:
        case["alignment"] = [stale_gaps(rng, w["tokens"]) for w in words]

    def kw():
        return {"method": rng.choice(METHODS), "tree_calc": rng.choice(["upgma", "neighbor"]),
                "mode": rng.choice(MODES), "gop": rng.choice(GOPS), "scale": rng.choice(SCALES),
                "factor": rng.choice(FACTORS), "gap_weight": rng.choice(GAPWS), "iteration": rng.random() < 0.2,
                "swap_check": rng.random() < 0.15, "model": rng.choice(MODELS)}

    registered = {case["default"]}
    for _ in range(rng.randint(2, 5)):
        c = rng.random()
        r = rng.randrange(nref)
        if c < 0.08:                                     # align on a ref that may not be registered: KeyError
            case["calls"].append({"kind": "align", "ref": r, "kw": kw()})
        elif r not in registered or c < 0.3:
            case["calls"].append({"kind": "add", "ref": r, "override": rng.random() < 0.3})
            registered.add(r)
            if rng.random() < 0.8:
                case["calls"].append({"kind": "align", "ref": r, "kw": kw()})
        else:
            case["calls"].append({"kind": "align", "ref": r, "kw": kw()})
    return case


def run_almh_impl(case):
    from lingpy.align.sca import Alignments
    refs = REFS[:case["nref"]]
    head = ["doculect", "concept", "tokens", "ipa"] + refs + (["alignment"] if case["alignment"] else [])
    D = {0: head}
    for k, w in enumerate(case["words"]):
        row = [w["doc"], w["concept"], list(w["tokens"]), "".join(w["tokens"])] + list(w["cogs"])
        if case["alignment"]:
            row.append(list(case["alignment"][k]))
        D[w["id"]] = row
    toks = sorted({t for w in case["words"] for t in w["tokens"]})
    tcode = {t: i + 1 for i, t in enumerate(toks)}

    def row(r):
        return [None if t == "-" else tcode.get(t, 0) for t in r]

    alm = Alignments(D, ref=refs[case["default"]])

    def column():
        return [[int(k), row(list(alm[k, "alignment"]))] for k in alm]

    res = {"words": [[int(k), alm.cols.index(alm[k, "doculect"]), [int(alm[k, r]) for r in refs],
                      [tcode[t] for t in alm[k, "tokens"]]] for k in alm],
           "col0": column(), "steps": []}
    # the constructor has registered the default ref
    res["steps"].append({"kind": "add", "ref": case["default"], "override": False, "sets": [], "raised": None,
                         "col": column()})
    for c in case["calls"]:
        name = refs[c["ref"]]
        raised = None
        try:
            if c["kind"] == "add":
                alm.add_alignments(ref=name, override=c["override"])
            else:
                alm.align(ref=name, **c["kw"])
        except Exception as e:  # align on an unregistered ref: KeyError (a guard)
            raised = "%s: %s" % (type(e).__name__, e)
        sets = []
        if c["kind"] == "align" and raised is None:
            for key, v in alm.msa[name].items():
                sets.append([[[tcode[t] for t in s] for s in v["seqs"]], [row(r) for r in v["alignment"]]])
        res["steps"].append({"kind": c["kind"], "ref": c["ref"], "override": c.get("override", False),
                             "sets": sets, "raised": raised, "col": column()})
    return res


def col_lit(col):
    return L.lst(["(%d, %s)" % (i, erow_lit(r)) for i, r in col])


def render_almh(case, res):
    words = L.lst(["(Build_mword %d %d %s %s)" % (i, d, L.lst(["%d" % c for c in cs]), L.zlist(t))
                   for i, d, cs, t in res["words"]])
    steps = []
    for s in res["steps"]:
        kind = "(KAdd %d %s)" % (s["ref"], L.b(s["override"])) if s["kind"] == "add" else "(KAlign %d)" % s["ref"]
        sets = L.lst(["(%s, %s)" % (L.zmat(q), L.lst([erow_lit(r) for r in a])) for q, a in s["sets"]])
        steps.append(L.record("astep", [kind, sets, L.b(s["raised"] is not None), col_lit(s["col"])]))
    return L.record("almh_case", [words, col_lit(res["col0"]), L.lst(steps)])


def nontrivial_almh(case, res):
    """At least two align calls on different refs whose columns differ."""
    cols = {}
    for s in res["steps"]:
        if s["kind"] == "align" and s["raised"] is None:
            cols[s["ref"]] = json_key(s["col"])
    return len(set(cols.values())) >= 2


def json_key(x):
    import json
    return json.dumps(x, sort_keys=True)


def shrink_almh(case):
    if len(case["calls"]) > 1:
        for k in range(len(case["calls"])):
            c = copy.deepcopy(case)
            del c["calls"][k]
            yield c
    if len(case["words"]) > 2:
        for k in range(len(case["words"])):
            c = copy.deepcopy(case)
            del c["words"][k]
            if c["alignment"]:
                del c["alignment"][k]
            yield c


def classify_almh(case, res):
    out = ["almh:nref=%d" % case["nref"], "almh:stale_alignment_column" if case["alignment"] else "almh:no_alignment_column"]
    for s in res["steps"][1:]:
        out.append("almh:%s:%s" % (s["kind"], "raised" if s["raised"] else "ok"))
    return out


# ----------------------------------------------------------------------------------------------
# the score functions themselves: calign/talign.score_profile and Multiple.sum_of_pairs
SOP_BITS = {6: "C11: a value of calign.score_profile / talign.score_profile / Multiple.sum_of_pairs differs from the "
               "documented column score (sum of the pair scores over the non-gap pairs divided by their number plus "
               "gap_weight times the number of gap pairs; mean over the columns) by more than 2^-30"}
DYADIC_GW = [0.0, 0.25, 0.5, 0.5, 0.75, 1.0, 0.125, 1.5]


def gen_sop_case(rng):
    n = rng.randint(2, 7)
    seqs = []
    while len(seqs) < n:
        w = gen_word(rng, 1, 5)
        if w not in seqs:
            seqs.append(w)
    case = {"seqs": seqs, "scoredict_seed": rng.randrange(1 << 30), "hostile": rng.random() < 0.4,
            "gop": rng.choice([-1, -2, 0, -3]), "mats": [], "cols": []}
    cells = [[i, j] for i, s in enumerate(seqs) for j in range(len(s))]
    for _ in range(rng.randint(1, 3)):
        L = max(map(len, seqs)) + rng.randint(0, 3)
        rows = []
        for i in rng.sample(range(n), rng.randint(2, n)):
            r = [[i, j] for j in range(len(seqs[i]))]
            while len(r) < L:
                r.insert(rng.randrange(len(r) + 1), None)
            rows.append(r)
        case["mats"].append({"sonars": rng.random() < 0.5, "gw": rng.choice(DYADIC_GW), "mat": rows})
    for _ in range(rng.randint(2, 5)):
        # a column holds at most one cell of every sequence (the scoring dictionary has no entries for two
        # different positions of one sequence); the two columns come from the same or from disjoint sequences
        def col(rows):
            return [None if rng.random() < 0.55 else [i, rng.randrange(len(seqs[i]))] for i in rows]
        if rng.random() < 0.4:
            a = col(rng.sample(range(n), rng.randint(1, n)))
            b = list(a)
        else:
            k = rng.randint(1, n - 1)
            perm = rng.sample(range(n), n)
            a, b = col(perm[:k]), col(perm[k:])
        case["cols"].append({"gw": rng.choice(DYADIC_GW), "a": a, "b": b})
    return case


def run_sop_impl(case):
    import lingpy.align.multiple as mm
    seqs = [list(s) for s in case["seqs"]]
    toks = sorted({t for s in seqs for t in s})
    tcode = {t: i + 1 for i, t in enumerate(toks)}
    r = random.Random(case["scoredict_seed"])
    sd = {}
    for a in toks:
        for b in toks:
            if (b, a) in sd:
                sd[a, b] = sd[b, a]
            elif a == b:
                sd[a, b] = float(r.randint(1, 5))
            else:
                sd[a, b] = -float(r.randint(1, 9)) if case["hostile"] else float(r.randint(-4, 4))
    objs = {}
    for sonar in (True, False):
        m = mm.Multiple(seqs)
        m.prog_align(classes=False, sonar=sonar, scoredict=sd)
        objs[sonar] = m

    def cell(c):
        return "X" if c is None else "%d.%d" % (c[0] + 1, c[1] + 1)

    def guard(f):
        try:
            return str(F(f()))
        except ZeroDivisionError:
            return None

    res = {"classes": [[tcode[t] for t in s] for s in seqs],
           "table": [[tcode[a], tcode[b], str(F(v))] for (a, b), v in sorted(sd.items())], "mats": [], "cols": []}
    scorer = objs[True].scorer
    for e in case["mats"]:
        mat = [[cell(c) for c in row] for row in e["mat"]]
        res["mats"].append(guard(lambda: objs[e["sonars"]].sum_of_pairs("other", mat, e["gw"], case["gop"])))
    for e in case["cols"]:
        a, b = [cell(c) for c in e["a"]], [cell(c) for c in e["b"]]
        res["cols"].append([guard(lambda: mm.calign.score_profile(a, b, scorer, gap_weight=e["gw"])),
                            guard(lambda: mm.talign.score_profile(a, b, scorer, case["gop"], e["gw"]))])
    return res


def render_sop(case, res):
    def oq(x):
        return "None" if x is None else "(Some %s)" % L.q(F(x))

    def line(l):
        return L.lst([cell_lit(c) for c in l])
    table = L.lst(["((%s, %s), %s)" % (L.z(a), L.z(b), L.q(F(v))) for a, b, v in res["table"]])
    mats = L.lst(["(%s, %s, %s, %s)" % (L.b(e["sonars"]), L.q(F(e["gw"])), imat_lit(e["mat"]), oq(v))
                  for e, v in zip(case["mats"], res["mats"])])
    cols = L.lst(["(%s, %s, %s, %s, %s)" % (L.q(F(e["gw"])), line(e["a"]), line(e["b"]), oq(v[0]), oq(v[1]))
                  for e, v in zip(case["cols"], res["cols"])])
    return L.record("sop_case", [L.zmat(res["classes"]), table, L.q(F(case["gop"])), mats, cols])


def nontrivial_sop(case, res):
    """A measured matrix or column pair with at least two gap-gap pairs and a gap weight other than 0 and 1."""
    for e in case["cols"]:
        if e["gw"] not in (0.0, 1.0) and sum(c is None for c in e["a"]) * sum(c is None for c in e["b"]) >= 2:
            return True
    return False


def classify_sop(case, res):
    return ["sop:gw=%s" % e["gw"] for e in case["mats"] + case["cols"]] + \
        ["sop:zero_division" for v in res["mats"] if v is None]


# ----------------------------------------------------------------------------------------------
# Alignments in fuzzy (partial cognate) mode
FUZZY_BITS = {0: "correspondence: the alignment column of a fuzzy (partial-cognate) wordlist differs from the model's "
                 "(morphemes = segments split at '+', one cognate id per morpheme, library default split_on_tones=False)",
              1: "generated wordlist is malformed (generator error)",
              2: "C04 (Alignments clause, partial cognates): splitting a stored alignment at '+' does not give one row "
                 "per morpheme that de-gaps to the morpheme, rows of one multi-member set differ in length, a morpheme "
                 "outside such sets was changed, or a set's alm_matrix violates the Multiple invariant"}


def gen_syllable(rng):
    s = [rng.choice(CONS)]
    if rng.random() < 0.3:
        s.append(rng.choice(["j", "w", "r", "l"]))
    s.append(rng.choice(VOWS))
    if rng.random() < 0.3:
        s.append(rng.choice(["n", "ŋ", "m", "k", "t"]))
    if rng.random() < 0.8:
        s.append(rng.choice(TONES))
    return s


def gen_morpheme(rng):
    # one or two syllables in ONE morpheme: a tone letter may stand in non-final position
    return [t for _ in range(rng.choice([1, 1, 2, 2, 3])) for t in gen_syllable(rng)]


def gen_fuzzy_case(rng, max_words=8):
    ndoc = rng.choice([2, 3, 4])
    nw = rng.randint(2, max_words)
    ncog = rng.randint(1, max(2, nw))
    base = {c: gen_morpheme(rng) for c in range(1, ncog + 1)}
    words = []
    for i in rng.sample(range(1, 60), nw):
        k = rng.choice([1, 1, 2, 2, 3])
        cogs = []
        for _ in range(k):
            c = rng.choice([0] + [x for x in range(1, ncog + 1) if x not in cogs] * 3 or [0])
            cogs.append(c)
        morphs = []
        for c in cogs:
            r = rng.random()
            morphs.append(mutate(rng, base[c]) if c and r < 0.5 else list(base[c]) if c and r < 0.7 else gen_morpheme(rng))
        words.append({"id": i, "doc": "L%d" % rng.randrange(ndoc), "concept": "c%d" % rng.randint(1, 3),
                      "cogs": cogs, "morphs": morphs})
    kw = {"method": rng.choice(METHODS), "tree_calc": rng.choice(["upgma", "neighbor"]), "mode": rng.choice(MODES),
          "gop": rng.choice(GOPS), "scale": rng.choice(SCALES), "factor": rng.choice(FACTORS),
          "gap_weight": rng.choice(GAPWS), "iteration": rng.random() < 0.3, "swap_check": rng.random() < 0.2,
          "model": rng.choice(MODELS)}
    # the optional keyword is omitted most of the time (the library default is what is documented: False)
    return {"fwords": words, "kw": kw, "split_on_tones": rng.choice([None, None, None, False]),
            "twice": rng.random() < 0.15}


def run_fuzzy_impl(case):
    from lingpy.align.sca import Alignments
    D = {0: ["doculect", "concept", "tokens", "cogids", "ipa"]}
    toks = sorted({t for w in case["fwords"] for m in w["morphs"] for t in m})
    tcode = {t: i + 1 for i, t in enumerate(toks)}
    tcode["+"] = 0
    for w in case["fwords"]:
        flat = []
        for k, m in enumerate(w["morphs"]):
            flat += (["+"] if k else []) + list(m)
        D[w["id"]] = [w["doc"], w["concept"], flat, list(w["cogs"]), "".join(flat)]
    kw = {} if case["split_on_tones"] is None else {"split_on_tones": case["split_on_tones"]}
    alm = Alignments(D, ref="cogids", fuzzy=True, **kw)
    alm.align(**case["kw"])
    if case["twice"]:
        alm.align(**case["kw"])

    def row(r):
        return [None if t == "-" else tcode.get(t, -1) for t in r]

    def morphs(seg):
        out = [[]]
        for t in seg:
            if t == "+":
                out.append([])
            else:
                out[-1].append(tcode[t])
        return out

    res = {"words": [], "sets": [], "col": []}
    for k in alm:
        res["words"].append([int(k), alm.cols.index(alm[k, "doculect"]), [int(c) for c in alm[k, "cogids"]],
                             morphs(list(alm[k, "tokens"]))])
        res["col"].append([int(k), row(list(alm[k, "alignment"]))])
    for key, v in alm.msa["cogids"].items():
        res["sets"].append([[[tcode[t] for t in q] for q in v["seqs"]], [row(r) for r in v["alignment"]]])
    return res


def render_fuzzy(case, res):
    words = L.lst(["(Build_fword %d %d %s %s)" % (i, d, L.lst(["%d" % c for c in cs]), L.zmat(ms))
                   for i, d, cs, ms in res["words"]])
    sets = L.lst(["(%s, %s)" % (L.zmat(q), L.lst([erow_lit(r) for r in a])) for q, a in res["sets"]])
    return L.record("fuzzy_case", [words, sets, col_lit(res["col"])])


def nontrivial_fuzzy(case, res):
    """A multi-member set whose alignment has a gap, and a morpheme with a tone letter in non-final position."""
    return any(any(c is None for r in a for c in r) for _, a in res["sets"]) and \
        any(t in TONES for w in case["fwords"] for m in w["morphs"] for t in m[:-1])


def shrink_fuzzy(case):
    if len(case["fwords"]) > 2:
        for k in range(len(case["fwords"])):
            c = copy.deepcopy(case)
            del c["fwords"][k]
            yield c
    for k, w in enumerate(case["fwords"]):
        if len(w["morphs"]) > 1:
            c = copy.deepcopy(case)
            del c["fwords"][k]["morphs"][-1]
            del c["fwords"][k]["cogs"][-1]
            yield c


def classify_fuzzy(case, res):
    return ["fuzzy:split_on_tones=%s" % case["split_on_tones"], "fuzzy:sets=%d" % len(res["sets"])]


def _view(**over):
    import types
    ns = types.SimpleNamespace(**{k: v for k, v in globals().items() if not k.startswith("__")})
    for k, v in over.items():
        setattr(ns, k, v)
    return ns


C11View = _view(nontrivial=nontrivial_c11)
FuzzyView = _view(IMPORTS=FUZZY_IMPORTS, run_impl=run_fuzzy_impl, render=render_fuzzy, BITS=FUZZY_BITS,
                  nontrivial=nontrivial_fuzzy, shrink=shrink_fuzzy, classify=classify_fuzzy)
SopView = _view(IMPORTS=SOP_IMPORTS, run_impl=run_sop_impl, render=render_sop, BITS=SOP_BITS, nontrivial=nontrivial_sop,
                shrink=lambda case: iter(()), classify=classify_sop)
AlmHView = _view(IMPORTS=ALMH_IMPORTS, run_impl=run_almh_impl, render=render_almh, BITS=ALMH_BITS, nontrivial=nontrivial_almh,
                 shrink=shrink_almh, classify=classify_almh)
AlmView = _view(IMPORTS=ALM_IMPORTS, run_impl=run_alm_impl, render=render_alm, BITS=ALM_BITS, nontrivial=nontrivial_alm,
                shrink=shrink_alm, classify=classify_alm)
