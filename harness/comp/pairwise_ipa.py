"""Component: the IPA-level entry point lingpy.align.pairwise.Pairwise - histories of align() calls on one
object (several pairs, several modes).  Each (call, pair) is one case whose returned gapped token rows are
checked by the verified validity checker (C01).  Used by C01."""
import random

from ..lib import coqlit as L
from . import align as AL

IMPORTS = ("From LV Require Import Common.Cases Align.DP Align.Calign Align.CalignExec Align.Malign "
           "Align.MalignExec.")
MODES = ["global", "overlap", "local", "dialign"]
_KEYS = {}


def _keys(model_name):
    if model_name not in _KEYS:
        from lingpy.settings import rcParams
        m = rcParams[model_name]
        # chosen by the TOKEN only (never by the class the current converter gives it: an edited converter
        # must not be able to hide its own effect)
        _KEYS[model_name] = sorted(k for k, v in m.converter.items()
                                   if len(k) == 1 and k.strip() and k not in "-+_#◦·0" and not k.isdigit()
                                   and k not in "¹²³⁴⁵⁶⁰₁₂₃₄₅₆₀˥˦˧˨˩")
    return _KEYS[model_name]


def gen_history(rng, maxlen=6):
    model = rng.choice(["sca", "sca", "dolgo", "asjp"])
    keys = _keys(model)
    pairs = []
    for _ in range(rng.randint(1, 3)):
        a = [rng.choice(keys) for _ in range(rng.randint(1, maxlen))]
        if rng.random() < 0.5:
            b = list(a)
            for _ in range(rng.randint(0, 2)):       # insertions / deletions: alignments with gaps
                if b and rng.random() < 0.5:
                    del b[rng.randrange(len(b))]
                else:
                    b.insert(rng.randrange(len(b) + 1), rng.choice(keys))
            b = b or [rng.choice(keys)]
        else:
            b = [rng.choice(keys) for _ in range(rng.randint(1, maxlen))]
        pairs.append((a, b))
    calls = []
    for _ in range(rng.randint(1, 4)):
        call = {"mode": rng.choice(MODES), "distance": rng.random() < 0.3, "gop": rng.choice([-1, -2, -0.5, 0]),
                "scale": rng.choice([0.5, 1.0, 0.25]), "factor": rng.choice([0.0, 0.3, 1.0]),
                "restricted_chars": rng.choice(["T_", "", "_"])}
        # the library's own defaults are part of what is exercised: every keyword is left out now and then
        call["omit"] = sorted(k for k in ("mode", "distance", "gop", "scale", "factor", "restricted_chars", "model")
                              if rng.random() < 0.3)
        calls.append(call)
    h = {"model": model, "pairs": pairs, "calls": calls}
    if rng.random() < 0.4:
        # un-spaced IPA strings: lingpy segments them itself (ipa2tokens); some carry a DECOMPOSED letter
        # (base + combining tilde), which must come back exactly as given
        strings = []
        for a, b in pairs:
            sa, sb = "".join(a), "".join(b)
            if rng.random() < 0.5:
                sa = sa.replace("a", "a\u0303", 1).replace("o", "o\u0308", 1)
            if rng.random() < 0.3:
                sb = sb.replace("e", "e\u0301", 1).replace("a", "a\u0303", 1)
            strings.append((sa, sb))
        h["strings"] = strings
    return h


def _seqs(h):
    if h.get("strings"):
        return [tuple(p) for p in h["strings"]]
    return [(" ".join(a), " ".join(b)) for a, b in h["pairs"]]


DOC_DEFAULTS = {"gop": -1, "scale": 0.5, "mode": "global", "factor": 0.3, "restricted_chars": "T_",
                "distance": False, "model": "sca"}
GLUE_ERRORS = []


def glue_check(pw, h, kw):
    """Pairwise.align(**kw) must be calign.align_pairs on the classes / prosodic weights / prosodic strings of the
    pairs under the model, with exactly the keywords that were passed and the DOCUMENTED defaults for those left
    out.  The reference inputs come from a fresh Pairwise object, so state left on the used object by earlier calls
    does not enter them; align_pairs itself is tied to the Coq model by the align streams.  Identical code path,
    identical floats: the comparison is exact.  Returns None or a description of the difference."""
    import copy
    from lingpy.align.pairwise import Pairwise
    from lingpy.algorithm.cython import _calign as calign
    eff = dict(DOC_DEFAULTS)
    eff.update(kw)
    ref = Pairwise(_seqs(h))
    ref._set_model(model=eff["model"])
    exp = calign.align_pairs(copy.deepcopy(ref.classes), copy.deepcopy(ref.weights), copy.deepcopy(ref.prostrings),
                             eff["gop"], eff["scale"], eff["factor"], ref.scoredict, eff["mode"],
                             eff["restricted_chars"], distance=1 if eff["distance"] else 0)
    got = pw._alignments
    exp = [(a, b, float(c)) for a, b, c in exp]
    got = [(a, b, float(c)) for a, b, c in got]
    if exp == got:
        return None
    for i, (e, g) in enumerate(zip(exp, got)):
        if e != g:
            return {"pair": i, "expected": repr(e), "got": repr(g), "score_differs": e[2] != g[2]}
    return {"pair": -1, "expected": "%d alignments" % len(exp), "got": "%d alignments" % len(got), "score_differs": True}


def run_history(h):
    """Returns a list of cases (one per call and pair)."""
    from lingpy.align.pairwise import Pairwise
    pw = Pairwise(_seqs(h))
    cases = []
    pairs = h["pairs"]
    if h.get("strings"):
        # the segmentation is lingpy's; it must spell the input string exactly (C01 at the IPA-string level)
        pairs = []
        for (sa, sb), (ta, tb) in zip(h["strings"], pw.tokens):
            if "".join(ta) != sa or "".join(tb) != sb:
                raise AssertionError("Pairwise segments %r / %r as %r / %r: the tokens do not spell the input"
                                     % (sa, sb, ta, tb))
            pairs.append((list(ta), list(tb)))
    for ci, call in enumerate(h["calls"]):
        kw = {"model": h["model"], "mode": call["mode"], "distance": call["distance"], "gop": call["gop"],
              "scale": call["scale"]}
        for k in ("factor", "restricted_chars"):
            if k in call:
                kw[k] = call[k]
        for k in call.get("omit", ()):
            if k != "model" or h["model"] == "sca":  # the default model is sca; tokens are drawn from h["model"]
                kw.pop(k, None)
        pw.align(**kw)
        mode = kw.get("mode", "global")
        glue = glue_check(pw, h, kw)
        if glue:
            GLUE_ERRORS.append({"history": h, "call": ci, "passed_keywords": {k: v for k, v in kw.items()},
                                "scale_is_1": kw.get("scale", 0.5) == 1, **glue})
        for pi, (a, b) in enumerate(pairs):
            almA, almB, _ = pw.alignments[pi]
            cases.append({"history": h, "call": ci, "pair": pi, "tokA": list(a), "tokB": list(b),
                          "local": mode == "local", "almA": list(almA), "almB": list(almB),
                          "stored_tokens": [list(pw.tokens[pi][0]), list(pw.tokens[pi][1])]})
    return cases


def glue_histories(rng, n):
    """Runs n random histories for the glue check only.  Returns a stream record and the list of differences."""
    import time
    t0 = time.time()
    GLUE_ERRORS.clear()
    calls = raised = 0
    first_raise = None
    dist = {}
    for _ in range(n):
        h = gen_history(rng)
        try:
            run_history(h)
        except Exception as e:      # reported by C01 (valid history raised); counted here
            raised += 1
            first_raise = first_raise or {"history": h, "error": "%s: %s" % (type(e).__name__, e)}
        calls += len(h["calls"])
        for c in h["calls"]:
            for k in ["mode=" + c["mode"], "omitted=%d" % len(c["omit"]), "factor=%s" % c["factor"], "gop=%s" % c["gop"],
                      "restricted=%r" % c["restricted_chars"]]:
                dist[k] = dist.get(k, 0) + 1
    errs = list(GLUE_ERRORS)
    GLUE_ERRORS.clear()
    return ({"cases": calls, "distinct_nontrivial": calls, "impl_raised": raised, "disagreements": len(errs),
             "checker_rejections": 0, "distribution": dist, "wall_s": round(time.time() - t0, 1)}, errs, first_raise)


def run_impl(case):
    # re-run the whole history (needed for shrinking / replay) and pick the same (call, pair)
    for c in run_history(case["history"]):
        if c["call"] == case["call"] and c["pair"] == case["pair"]:
            return {"almA": c["almA"], "almB": c["almB"]}
    raise RuntimeError("case not in history")


def render(case, res):
    sym = {}
    for t in case["tokA"] + case["tokB"]:
        sym.setdefault(t, len(sym) + 1)

    def row(r):
        return L.lst([L.opt(None if x == "-" else sym.get(x, 1000 + len(x)), L.z) for x in r])
    return "(MPW %s %s %s %s %s)" % (L.zlist([sym[t] for t in case["tokA"]]), L.zlist([sym[t] for t in case["tokB"]]),
                                    L.b(case["local"]), row(res["almA"]), row(res["almB"]))


BITS = {1: "C01: the IPA-level alignment returned by Pairwise.align is not a valid alignment of the token lists"}


def nontrivial(case, res):
    return "-" in res["almA"] or "-" in res["almB"] or case["tokA"] != case["tokB"]


def classify(case, res):
    return ["call=%d" % case["call"], "mode=" + case["history"]["calls"][case["call"]]["mode"],
            "omitted=%d" % len(case["history"]["calls"][case["call"]].get("omit", ())),
            "model=" + case["history"]["model"], "gaps>0" if "-" in res["almA"] + res["almB"] else "gaps=0"]


def jsonable(case, res=None):
    c = {k: v for k, v in case.items() if k not in ("almA", "almB")}
    if res is not None:
        c["impl"] = res
    return c


def from_json(c):
    case = dict(c)
    case.pop("impl", None)
    case["history"]["pairs"] = [tuple(p) for p in case["history"]["pairs"]]
    return case


def shrink(case):
    h = case["history"]
    if len(h["calls"]) > 1 and case["call"] > 0:
        for drop in range(case["call"]):
            hh = dict(h, calls=[c for i, c in enumerate(h["calls"]) if i != drop])
            yield dict(case, history=hh, call=case["call"] - 1)
    if len(h["pairs"]) > 1:
        for drop in range(len(h["pairs"])):
            if drop != case["pair"]:
                hh = dict(h, pairs=[p for i, p in enumerate(h["pairs"]) if i != drop])
                if h.get("strings"):
                    hh["strings"] = [p for i, p in enumerate(h["strings"]) if i != drop]
                yield dict(case, history=hh, pair=case["pair"] - (1 if drop < case["pair"] else 0))
