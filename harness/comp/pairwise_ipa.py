"""Component: the IPA-level entry point lingpy.align.pairwise.Pairwise - histories of align() calls on one
object (several pairs, several modes).  Each (call, pair) is one case whose returned gapped token rows are
checked by the verified validity checker (C01).  Used by C01."""
import random

from ..lib import coqlit as L
from . import align as AL

IMPORTS = ("From LV Require Import Common.Cases Align.DP Align.Calign Align.CalignExec Align.Malign "
           "Align.MalignExec.")
MODES = ["global", "overlap", "local", "dialign"]
_KEYS = {}


def _keys(model_name):
    if model_name not in _KEYS:
        from lingpy.settings import rcParams
        m = rcParams[model_name]
        # chosen by the TOKEN only (never by the class the current converter gives it: an edited converter
        # must not be able to hide its own effect)
        _KEYS[model_name] = sorted(k for k, v in m.converter.items()
                                   if len(k) == 1 and k.strip() and k not in "-+_#◦·0" and not k.isdigit()
                                   and k not in "¹²³⁴⁵⁶⁰₁₂₃₄₅₆₀˥˦˧˨˩")
    return _KEYS[model_name]


def gen_history(rng, maxlen=6):
    model = rng.choice(["sca", "sca", "dolgo", "asjp"])
    keys = _keys(model)
    pairs = []
    for _ in range(rng.randint(1, 3)):
        a = [rng.choice(keys) for _ in range(rng.randint(1, maxlen))]
        if rng.random() < 0.5:
            b = list(a)
            for _ in range(rng.randint(0, 2)):       # insertions / deletions: alignments with gaps
                if b and rng.random() < 0.5:
                    del b[rng.randrange(len(b))]
                else:
                    b.insert(rng.randrange(len(b) + 1), rng.choice(keys))
            b = b or [rng.choice(keys)]
        else:
            b = [rng.choice(keys) for _ in range(rng.randint(1, maxlen))]
        pairs.append((a, b))
    calls = []
    for _ in range(rng.randint(1, 4)):
        call = {"mode": rng.choice(MODES), "distance": rng.random() < 0.3, "gop": rng.choice([-1, -2, -0.5]),
                "scale": rng.choice([0.5, 1.0, 0.25]), "factor": rng.choice([0.0, 0.3, 1.0]),
                "restricted_chars": rng.choice(["T_", "", "_"])}
        # the library's own defaults are part of what is exercised: every keyword is left out now and then
        call["omit"] = sorted(k for k in ("mode", "distance", "gop", "scale", "factor", "restricted_chars", "model")
                              if rng.random() < 0.3)
        calls.append(call)
    return {"model": model, "pairs": pairs, "calls": calls}


def run_history(h):
    """Returns a list of cases (one per call and pair)."""
    from lingpy.align.pairwise import Pairwise
    pw = Pairwise([(" ".join(a), " ".join(b)) for a, b in h["pairs"]])
    cases = []
    for ci, call in enumerate(h["calls"]):
        kw = {"model": h["model"], "mode": call["mode"], "distance": call["distance"], "gop": call["gop"],
              "scale": call["scale"]}
        for k in ("factor", "restricted_chars"):
            if k in call:
                kw[k] = call[k]
        for k in call.get("omit", ()):
            if k != "model" or h["model"] == "sca":  # the default model is sca; tokens are drawn from h["model"]
                kw.pop(k, None)
        pw.align(**kw)
        mode = kw.get("mode", "global")
        for pi, (a, b) in enumerate(h["pairs"]):
            almA, almB, _ = pw.alignments[pi]
            cases.append({"history": h, "call": ci, "pair": pi, "tokA": list(a), "tokB": list(b),
                          "local": mode == "local", "almA": list(almA), "almB": list(almB),
                          "stored_tokens": [list(pw.tokens[pi][0]), list(pw.tokens[pi][1])]})
    return cases


def run_impl(case):
    # re-run the whole history (needed for shrinking / replay) and pick the same (call, pair)
    for c in run_history(case["history"]):
        if c["call"] == case["call"] and c["pair"] == case["pair"]:
            return {"almA": c["almA"], "almB": c["almB"]}
    raise RuntimeError("case not in history")


def render(case, res):
    sym = {}
    for t in case["tokA"] + case["tokB"]:
        sym.setdefault(t, len(sym) + 1)

    def row(r):
        return L.lst([L.opt(None if x == "-" else sym.get(x, 1000 + len(x)), L.z) for x in r])
    return "(MPW %s %s %s %s %s)" % (L.zlist([sym[t] for t in case["tokA"]]), L.zlist([sym[t] for t in case["tokB"]]),
                                    L.b(case["local"]), row(res["almA"]), row(res["almB"]))


BITS = {1: "C01: the IPA-level alignment returned by Pairwise.align is not a valid alignment of the token lists"}


def nontrivial(case, res):
    return "-" in res["almA"] or "-" in res["almB"] or case["tokA"] != case["tokB"]


def classify(case, res):
    return ["call=%d" % case["call"], "mode=" + case["history"]["calls"][case["call"]]["mode"],
            "omitted=%d" % len(case["history"]["calls"][case["call"]].get("omit", ())),
            "model=" + case["history"]["model"], "gaps>0" if "-" in res["almA"] + res["almB"] else "gaps=0"]


def jsonable(case, res=None):
    c = {k: v for k, v in case.items() if k not in ("almA", "almB")}
    if res is not None:
        c["impl"] = res
    return c


def from_json(c):
    case = dict(c)
    case.pop("impl", None)
    case["history"]["pairs"] = [tuple(p) for p in case["history"]["pairs"]]
    return case


def shrink(case):
    h = case["history"]
    if len(h["calls"]) > 1 and case["call"] > 0:
        for drop in range(case["call"]):
            hh = dict(h, calls=[c for i, c in enumerate(h["calls"]) if i != drop])
            yield dict(case, history=hh, call=case["call"] - 1)
    if len(h["pairs"]) > 1:
        for drop in range(len(h["pairs"])):
            if drop != case["pair"]:
                hh = dict(h, pairs=[p for i, p in enumerate(h["pairs"]) if i != drop])
                yield dict(case, history=hh, pair=case["pair"] - (1 if drop < case["pair"] else 0))
