"""Component: saving a wordlist-family object to TSV and loading it again (C13).

Three kinds of cases, each with its own Gallina record / code function (Wordlist/SerializeExec.v):
  SER  save/load of an object      ser_case / ser_case_code
  RD   the reader on arbitrary text rd_case  / rd_case_code
  BLK  <dst> and <scorer> blocks   blk_case / blk_case_code
Strings go to Coq as lists of code points, floats as exact fractions (values written) or as the
decimal their repr() prints (values read back)."""
import itertools
import json
import os
import random
import re
import shutil
import unicodedata
from fractions import Fraction as F

from ..lib import coqlit as L
from ..lib import env

IMPORTS = ("From LV Require Import Common.Cases Wordlist.SerializeStr Wordlist.SerializeNum Wordlist.Serialize Wordlist.SerializeMsa "
           "Wordlist.SerializeExec.\nLocal Open Scope Z_scope.")

BITS = {0: "correspondence: model text / model parse / model pairs differ from the implementation",
        1: "round trip: the loaded object differs from the saved one (ids, columns, cell values or value types)",
        2: "derived state: the word pairs of the loaded LexStat differ from those of the saved one",
        3: "analysis / msa state: the alignments per cognate set (rows, segments, swaps/local/consensus annotations) or the "
           "result of the same deterministic analysis or the scoring functions (at two decimals) differ between the saved "
           "and the loaded object",
        4: "dst: a distance read back is not the four-decimal rounding of the value saved",
        5: "scorer: a score read back is not the two-decimal rounding of the value saved",
        6: "re-analysis: align() on an already aligned Alignments object / the seeded get_scorer(force=True) of a LexStat "
           "object gives another result after save/load",
        7: "msa blocks: a cognate set read back from its <msa> block differs from the one saved (ids, taxa, rows, "
           "plain segments, local / swaps annotations)"}


def quiet():
    """lingpy logs every file it writes and draws progress bars: silence both (harness process only)."""
    import logging
    os.environ["TQDM_DISABLE"] = "1"
    logging.disable(logging.CRITICAL)
    try:
        from functools import partial
        from tqdm import tqdm
        import lingpy.util
        lingpy.util.pb = partial(tqdm, leave=False, disable=True)
    except Exception:
        pass
    # the library asks "do you want to override?" on stdin when a column exists: never block, answer yes
    import lingpy.basic.parser
    import lingpy.util
    lingpy.util.confirm = lambda *a, **k: True
    lingpy.basic.parser.confirm = lambda *a, **k: True


class Unsupported(Exception):
    """A value the Gallina literal language of this component cannot express (never produced by the generators)."""


# ----------------------------------------------------------------------------------------------
# scratch directory
def tmpdir():
    d = os.path.join(env.BUILD, "c13", str(os.getpid()))
    os.makedirs(d, exist_ok=True)
    return d


def cleanup():
    shutil.rmtree(os.path.join(env.BUILD, "c13", str(os.getpid())), ignore_errors=True)


_counter = itertools.count()


def fresh(stem="f"):
    return os.path.join(tmpdir(), "%s%d" % (stem, next(_counter)))


# ----------------------------------------------------------------------------------------------
# Gallina literals (Z_scope is open in the cases file)
def zs(n):
    n = int(n)
    return str(n) if n >= 0 else "(%d)" % n


def S(s):
    return "[" + ";".join(str(ord(c)) for c in s) + "]"


def SL(l):
    return "[" + "; ".join(S(x) for x in l) + "]"


def Q(x):
    x = F(x)
    return "(%d#%d)%%Q" % (x.numerator, x.denominator)


def dec_of_float(x):
    r = repr(float(x))
    m = re.fullmatch(r"(-?)(\d+)\.(\d+)", r)
    if not m:
        raise Unsupported("float %r is not printed as a plain decimal" % (x,))
    return (bool(m.group(1)), int(m.group(2)), [int(c) for c in m.group(3)])


def is_int(v):
    import numpy as np
    return isinstance(v, (int, np.integer)) and not isinstance(v, (bool, np.bool_))


def cell_obs(v):
    """Python cell -> tagged tuple (the 'typed cell' of the model)."""
    if v is None:
        return ("none",)
    if is_int(v):
        return ("int", int(v))
    if isinstance(v, float):
        if v != v or v in (float("inf"), float("-inf")) or (v == 0 and str(v).startswith("-")):
            raise Unsupported("float %r" % v)
        return ("float", str(F(v)))
    if isinstance(v, str):
        return ("str", v)
    if isinstance(v, list):
        if all(isinstance(x, str) for x in v):
            return ("list", [str(x) for x in v])
        if all(is_int(x) for x in v):
            return ("ints", [int(x) for x in v])
        if all(isinstance(x, float) for x in v):
            return ("floats", [dec_of_float(x) for x in v])
    raise Unsupported("cell %r of type %s" % (v, type(v).__name__))


def cell_lit(c):
    t = c[0]
    if t == "none":
        return "VNone"
    if t == "int":
        return "(VInt %s)" % zs(c[1])
    if t == "float":
        return "(VFloat %s)" % Q(F(c[1]))
    if t == "str":
        return "(VStr %s)" % S(c[1])
    if t == "list":
        return "(VList %s)" % SL(c[1])
    if t == "ints":
        return "(VInts [%s])" % ";".join(zs(i) for i in c[1])
    if t == "floats":
        return "(VFloats [%s])" % ";".join(
            "(mk_dec %s %d [%s])" % (L.b(n), i, ";".join(str(d) for d in f)) for n, i, f in c[1])
    raise Unsupported(c)


def rows_lit(rows):
    return "[" + ";\n   ".join("(%s, [%s])" % (zs(k), "; ".join(cell_lit(c) for c in cells)) for k, cells in rows) + "]"


def wl_lit(obs):
    if obs[0] == "err":
        return "Err"
    return "(Ok (mk_wl %s %s))" % (SL(obs[1]), rows_lit(obs[2]))


def observe(obj):
    """Columns in index order and the rows of obj._data in dictionary order."""
    cols = sorted(obj.header, key=lambda c: obj.header[c])
    rows = [(int(k), [cell_obs(v) for v in row]) for k, row in obj._data.items()]
    return ("ok", cols, rows)


def file_lines(path):
    with open(path, encoding="utf8", newline="") as f:
        text = f.read()
    lines = text.split("\n")
    if lines and lines[-1] == "":
        lines.pop()
    return lines


def stamp_lines(obj):
    st = getattr(obj, "_stamp", "") or ""
    lines = st.split("\n")
    if lines and lines[-1] == "":
        lines.pop()
    return lines


def all_strings(cols, rows):
    for c in cols:
        yield c
    for _, cells in rows:
        for c in cells:
            if c[0] == "str":
                yield c[1]
            elif c[0] == "list":
                for x in c[1]:
                    yield x


def is_nfc(cols, rows):
    return all(unicodedata.is_normalized("NFC", s) for s in all_strings(cols, rows))


# ----------------------------------------------------------------------------------------------
# generators
ASCII_LOW = "abcdefghijklmnopqrstuvwxyz"
IPA = "ɟθæəŋʃʒɛɔʰːβɣχʔɲ"
# NFC-stable sequences with combining marks (no precomposed form exists)
COMB = ["ɛ̃", "ɔ̃", "t̪", "n̩", "ə̆", "a̰"]
PUNCT = "#@<>-+_.:,;/\\\"'()[]{}=*!?|~^%&$"
INNER_WS = [" ", " ", " ", " ", " ", "\u0085", "\x1f", "\x0b"]   # blanks allowed inside a string cell
DIGITS = "0123456789"


def gen_word(rng, lo=1, hi=6, extra=""):
    n = rng.randint(lo, hi)
    out = []
    for _ in range(n):
        c = rng.random()
        if c < 0.55:
            out.append(rng.choice(ASCII_LOW + "ABCXYZ"))
        elif c < 0.75:
            out.append(rng.choice(IPA))
        elif c < 0.82:
            out.append(rng.choice(COMB))
        elif c < 0.90:
            out.append(rng.choice(DIGITS))
        else:
            out.append(rng.choice(PUNCT + extra))
    return unicodedata.normalize("NFC", "".join(out))


EDGE_STR = ["", "0", "1", "-1", "+5", "1_0", "007", "1.5", "#x", "@a:b", "<x>", "a b", "a  b", "ID", "id",
            "None", "-", ".", "..", "a.", "1e3", "٣", "x y", "a​b"]


def gen_str(rng, mode):
    c = rng.random()
    if c < 0.12:
        return rng.choice(EDGE_STR)
    if c < 0.30:
        return gen_word(rng) + rng.choice(INNER_WS) + gen_word(rng)
    s = gen_word(rng)
    if mode == "wild":
        d = rng.random()
        if d < 0.25:
            s = rng.choice([" ", " ", " ", "\x0b"]) + s
        elif d < 0.5:
            s = s + rng.choice([" ", " ", "\x1f"])
        elif d < 0.6:
            s = s[:1] + "\t" + s[1:]
        elif d < 0.7:
            s = s[:1] + "\n" + s[1:]
    return s


def gen_item(rng, mode):
    if rng.random() < 0.1:
        return rng.choice(["0", "-", "+", "1", "#", "@", "<", "a.", ".", "1.A.C", "2.X.-", "_"])
    s = gen_word(rng, 1, 3)
    if mode == "wild" and rng.random() < 0.2:
        s = rng.choice(["", s + " " + s, " " + s, s + " "])
    return s


def gen_int(rng):
    c = rng.random()
    if c < 0.6:
        return rng.randint(0, 30)
    if c < 0.8:
        return rng.randint(-50, -1)
    # incl. integers no double can hold (timestamp-like ids, 2**53 + 1)
    return rng.choice([0, 1, 9, 10, 99, 100, 12345, 10 ** 9, 2 ** 40, -10 ** 6, 20231004153000001, 2 ** 53 + 1,
                       10 ** 17 + 3, -(2 ** 60) - 7])


FLOAT_ITEMS = [2.0, 1.5, 1.3, 1.1, 0.8, 0.7, 1.75, 0.0, 3.25, 10.0, 0.125, 100.5, -1.5, -0.25, 0.001, 12.0625]


# column kinds: name -> (kind, in namespace table?)  kinds: str int list ints floats listsp intssp
COLUMN_POOL = [
    ("ipa", "str"), ("note", "str"), ("source", "str"), ("value_2", "str"), ("iso", "str"), ("classes", "str"),
    ("prostrings", "str"), ("langid", "str"),
    ("tokens", "list"), ("segments", "list"), ("alignment", "list"), ("numbers", "list"), ("morphemes", "list"),
    ("cogid", "int"), ("conceptid", "int"), ("scaid", "int"), ("lexstatid", "int"), ("duplicates", "int"),
    ("cognate_set", "int"),
    ("cogids", "ints"), ("sonars", "ints"), ("fuzzyid", "ints"), ("partial_ids", "ints"), ("pcogsets", "ints"),
    ("weights", "floats"),
    ("clpa_ids", "listsp"), ("clpa_segments", "listsp"), ("cognate_sets", "intssp"),
]
# aliases accepted on input (the object then carries the canonical name)
INPUT_ALIAS = {"doculect": ["doculect", "language", "taxa", "taxon"], "concept": ["concept", "gloss", "concepts"],
               "tokens": ["tokens", "ipatokens"], "iso": ["iso", "isocode"]}


def gen_cell(rng, kind, mode):
    if mode == "wild" and rng.random() < 0.12:
        return rng.choice([None, 0.5, 1.0, 0.03125, 2.5, "x", 7, ["a", "b"], [1, 2], []])
    if kind == "str":
        return gen_str(rng, mode)
    if kind == "int":
        return gen_int(rng)
    if kind == "list":
        return [gen_item(rng, mode) for _ in range(rng.choice([0, 1, 2, 3, 3, 4, 5]))]
    if kind == "listsp":
        return [gen_item(rng, mode) for _ in range(rng.choice([1, 1, 2, 3]))]
    if kind == "ints":
        return [gen_int(rng) for _ in range(rng.choice([0, 1, 2, 3]))]
    if kind == "intssp":
        return [gen_int(rng) for _ in range(rng.choice([1, 2, 3]))]
    if kind == "floats":
        return [rng.choice(FLOAT_ITEMS) for _ in range(rng.choice([0, 1, 2, 4]))]
    raise ValueError(kind)


def gen_wordlist(rng, max_rows=8):
    """A dictionary for Wordlist(...).  mode 'valid' = inside the property's quantifier."""
    mode = "valid" if rng.random() < 0.8 else "wild"
    ncols = rng.choice([0, 1, 2, 3, 3, 4, 5])
    extra = rng.sample(COLUMN_POOL, ncols)
    if rng.random() < 0.15:
        extra.append(("".join(rng.choice(ASCII_LOW + "_2") for _ in range(rng.randint(1, 6))).strip("_2") or "zz", "str"))
    cols = [("doculect", "str"), ("concept", "str")] + extra
    seen = set()
    cols = [c for c in cols if not (c[0] in seen or seen.add(c[0]))]
    if rng.random() < 0.1 and mode == "wild":
        cols = [c for c in cols if c[0] != "concept"] + [("concept", "int")]
    rng.shuffle(cols)
    nrows = rng.choice([0, 1, 2, 3, 4, 5, 6, 7, 8, 8])
    nrows = min(nrows, max_rows)
    ids = rng.sample(range(1, 40), nrows)
    if rng.random() < 0.1:
        ids = [i * rng.choice([1, 13, 1000]) for i in ids]
    taxa = [gen_word(rng, 2, 5) for _ in range(rng.choice([1, 2, 3]))]
    concepts = [gen_str(rng, "valid") or "c" for _ in range(rng.choice([1, 2, 3, 4]))]
    if rng.random() < 0.3:
        concepts += [concepts[0].upper(), concepts[0].lower()]
    header = [rng.choice(INPUT_ALIAS.get(c, [c])) if rng.random() < 0.3 else c for c, _ in cols]
    d = {0: header}
    for i in ids:
        row = []
        for c, k in cols:
            if c == "doculect":
                row.append(rng.choice(taxa))
            elif c == "concept" and k == "str":
                row.append(rng.choice(concepts))
            elif c == "concept":
                row.append(rng.randint(0, 3))
            else:
                row.append(gen_cell(rng, k, mode))
        d[i] = row
    return {"type": "wordlist", "mode": mode, "data": d, "prettify": rng.choice([True, False, "false"]),
            "history": rng.choice([1, 1, 2])}


PHON = ["p", "t", "k", "b", "d", "g", "m", "n", "s", "h", "l", "r", "a", "e", "i", "o", "u", "ŋ", "ʃ", "ə"]


def gen_lexdata(rng, max_taxa=3, max_concepts=4):
    taxa = ["Lang" + x for x in rng.sample("ABCDEFG", rng.randint(2, max_taxa))]
    if rng.random() < 0.3:
        taxa[0] = "lang" + taxa[0][4:].lower() + "x"
    concepts = rng.sample(["hand", "arm", "Eye", "eye", "two words", "leg", "#5", "1"], rng.randint(2, max_concepts))
    d = {}
    i = 0
    ids = rng.sample(range(1, 60), len(taxa) * len(concepts) * 2)
    words = {}
    for c in concepts:
        base = [rng.choice(PHON) for _ in range(rng.randint(2, 4))]
        for t in taxa:
            for _ in range(rng.choice([0, 1, 1, 1, 2])):
                w = list(base)
                if rng.random() < 0.5:
                    w[rng.randrange(len(w))] = rng.choice(PHON)
                if rng.random() < 0.3 and (t, c) in words:
                    w = list(words[t, c])                     # a duplicate word: exercises `duplicates`
                words[t, c] = w
                d[ids[i]] = [t, c, list(w)]
                i += 1
    return taxa, concepts, d


def gen_lexstat(rng):
    taxa, concepts, d = gen_lexdata(rng)
    with_ipa = rng.random() < 0.3
    with_cog = rng.random() < 0.5
    hdr = ["doculect", "concept", "tokens"] + (["cogid"] if with_cog else [])
    data = {0: hdr}
    for k, (t, c, w) in d.items():
        row = [t, c, w] + ([rng.randint(1, 4)] if with_cog else [])
        data[k] = row
    if with_ipa:      # IPA only: the tokens column is derived, too
        data = {0: ["doculect", "concept", "ipa"]}
        for k, (t, c, w) in d.items():
            data[k] = [t, c, "".join(w)]
    # get_scorer before the first save (seeded, few runs): the language-specific scorer goes into a <scorer> block
    scorer = rng.random() < 0.4
    ignore = [] if scorer else rng.choice(["all", "all", []])
    return {"type": "lexstat", "mode": "valid", "data": data, "prettify": rng.choice([True, False]),
            "analysis": rng.choice(["sca", "edit-dist", "turchin", None]), "threshold": rng.choice([0.3, 0.45, 0.6]),
            "history": rng.choice([1, 2]), "ignore": ignore, "scorer": scorer}


MULTI_SEG = ["oː", "aː", "tʰ", "tʃ", "kʷ", "ɛ̃", "ts", "n̩"]
SWAP_ROWS = [("German", "w a l d e m a r"), ("English", "w o l d e m o r t"), ("Russian", "v l a d i m i r")]


def gen_alignments(rng):
    taxa, concepts, d = gen_lexdata(rng, 3, 3)
    data = {0: ["doculect", "concept", "ipa", "tokens", "cogid"]}
    for k, (t, c, w) in d.items():
        data[k] = [t, c, "".join(w), w, 1 + concepts.index(c) * 2 + rng.choice([0, 0, 1])]
    swap = rng.random() < 0.5
    if swap and rng.random() < 0.7:
        # a cognate set with a metathesis (w a l d ~ v l a d): align(swap_check=True) annotates a swap
        free = [i for i in range(60, 90) if i not in data]
        for i, (t, w) in zip(rng.sample(free, 3), SWAP_ROWS):
            data[i] = [t, "woldemort", w.replace(" ", ""), w.split(), 20]
    if len(concepts) >= 2 and rng.random() < 0.4:
        # a cognate set with words of two concepts inside one doculect: the file groups the rows by concept, so the
        # object read back holds them in another order than the object saved (add_alignments: id order, 246780d)
        c1, c2 = rng.sample(concepts, 2)
        for k in data:
            if k != 0 and data[k][1] in (c1, c2):
                data[k][4] = 50
    if rng.random() < 0.5:
        # a cognate set all of whose words are ONE segment of several code points (long vowel, aspirate, affricate,
        # nasalised vowel): its alignment has a single column (normalize_alignment's one-cell rows)
        free = [i for i in range(90, 120) if i not in data]
        n = rng.choice([1, 2, 2, 3])
        for i, t in zip(rng.sample(free, n), rng.sample(taxa, min(n, len(taxa)))):
            seg = rng.choice(MULTI_SEG)
            data[i] = [t, "water", seg, [seg], 30]
    ignore = rng.choice(["all", [], []])
    second = None
    if ignore == [] and rng.random() < 0.4:
        # a second cognate-id column (one id per concept): add_alignments(ref='scaid') + align(ref='scaid')
        data[0] = data[0] + ["scaid"]
        cid = {}
        for k in data:
            if k != 0:
                data[k] = data[k] + [cid.setdefault(data[k][1], len(cid) + 1)]
        second = "scaid"
    # align(); get_consensus() before the first save: the consensus goes into the <msa> tag and a CONSENSUS line
    # (gaps=True: one segment per column; gaps=False: shorter than the alignment whenever a column is mostly gaps)
    cons = rng.choice([None, "gaps", "nogaps"]) if ignore == [] else None
    return {"type": "alignments", "mode": "valid", "data": data, "prettify": rng.choice([True, False]),
            "analysis": "align", "swap_check": swap, "history": rng.choice([1, 2, 2]),
            "ignore": ignore, "plant_local": ignore == [] and rng.random() < 0.4, "consensus": cons,
            "second_ref": second, "consensus_after": rng.random() < 0.3}


def from_json(c):
    case = dict(c)
    case["data"] = {int(k): v for k, v in c["data"].items()}
    return case


# ----------------------------------------------------------------------------------------------
# running the implementation
def _build(case):
    from lingpy import Wordlist, LexStat, Alignments
    d = {int(k): [list(c) if isinstance(c, list) else c for c in row] for k, row in case["data"].items()}
    t = case["type"]
    if t == "wordlist":
        return Wordlist(d), Wordlist
    if t == "lexstat":
        return LexStat(d), LexStat
    # _interactive=False: a repeated get_consensus() overrides its column instead of asking on stdin
    obj = Alignments(d, ref="cogid", _interactive=False)
    return obj, (lambda p: Alignments(p, ref="cogid", _interactive=False))


def _pairs(lex):
    return [[a, b, [[int(x), int(y)] for x, y in v]] for (a, b), v in lex.pairs.items()]


def _analyse(obj, case):
    """Run the deterministic analysis named in the case; returns {row id: [result strings]} as a sorted list."""
    an = case.get("analysis")
    if an is None:
        return None
    if an == "align":
        obj.align(method="progressive", swap_check=bool(case.get("swap_check")))
        if case.get("consensus_after") and obj.msa["cogid"]:
            obj.get_consensus()               # a second analysis whose result (majority votes) depends on the row order
        return _msa_state(obj)                # both objects are analysed afresh: annotations included
    ref = {"sca": "scaid", "edit-dist": "editid", "turchin": "turchinid"}[an]
    obj.cluster(method=an, threshold=case.get("threshold", 0.45), ref=ref, override=True)
    return [[int(k), [str(obj[k, ref])]] for k in sorted(obj)]


def _msa_state(obj, annotations=True, all_refs=False):
    """The alignments per cognate set as the object holds them: rows (id, taxon, aligned and plain segments) and the
    per-set annotations (swaps, local, consensus) when present.  The annotations live in the <msa> blocks only: they
    are compared across save/load only when the blocks are written (ignore=[]); plain output (ignore='all', "output
    only plain tsv") does not carry them by its documented meaning."""
    out = []
    for ref in (sorted(obj.msa) if all_refs else ["cogid"]):
        for key, msa in sorted(obj.msa[ref].items()):
            rows = ["%s|%s|%s|%s" % (i, t, " ".join(a), " ".join(q))
                    for i, t, a, q in zip(msa["ID"], msa["taxa"], msa["alignment"], msa["seqs"])]
            if all_refs:
                rows.insert(0, "ref=" + ref)
            for ann in ("swaps", "local", "consensus") if annotations else ():
                val = list(msa.get(ann) or [])
                if val:
                    rows.append("%s=%s" % (ann, " ".join(str(tuple(x)) if isinstance(x, (list, tuple)) else str(x)
                                                         for x in val)))
            out.append([int(key), rows])
    return out


def _scorer_table(sc):
    chars = sorted(sc.chars2int)
    return {(a, b): "{0:.2f}".format(sc[a, b]) for a in chars for b in chars}


def _scorer_diff(saved, loaded, names=("bscorer", "rscorer", "cscorer")):
    """The scoring functions of the two objects at two decimals.  The full tables are compared here; what goes to
    the checker is, per scorer, the number of entries and the entries that differ (equal lists = equal scorers)."""
    out_a, out_b = [], []
    for n, name in enumerate(names):
        ta = _scorer_table(getattr(saved, name)) if hasattr(saved, name) else {}
        tb = _scorer_table(getattr(loaded, name)) if hasattr(loaded, name) else {}
        keys = sorted(k for k in set(ta) | set(tb) if ta.get(k) != tb.get(k))[:20]
        out_a.append([-(n + 1), [name, "n=%d" % len(ta)] + ["%s|%s|%s" % (a, b, ta.get((a, b))) for a, b in keys]])
        out_b.append([-(n + 1), [name, "n=%d" % len(tb)] + ["%s|%s|%s" % (a, b, tb.get((a, b))) for a, b in keys]])
    return out_a, out_b


def _msa_struct(obj, refs=None):
    """msa[ref] of an Alignments object for every reference column (dictionary order), field by field."""
    out = []
    for ref in (refs if refs is not None else list(obj.msa)):
        for key, msa in obj.msa[ref].items():
            if not is_int(key):
                raise Unsupported("msa key %r" % (key,))
            st = msa.get("stamp", "") or ""
            stl = st.split("\n")
            if stl and stl[-1] == "":
                stl.pop()
            out.append({"ref": str(ref), "key": int(key), "ids": [int(i) for i in msa["ID"]],
                        "taxa": [str(t) for t in msa["taxa"]],
                        "alm": [[str(x) for x in r] for r in msa["alignment"]],
                        "seqs": [[str(x) for x in r] for r in msa["seqs"]],
                        "local": [int(i) for i in (msa.get("local") or [])],
                        "swaps": [[int(x) for x in sw] for sw in (msa.get("swaps") or [])],
                        "cons": [str(x) for x in msa["consensus"]] if "consensus" in msa else None,
                        "stamp": stl})
    return out


def ser_run(case):
    """history = number of save -> load -> analyse rounds.  Returns one step record per save/load."""
    import copy
    obj, loader = _build(case)
    steps = []
    for h in range(case.get("history", 1)):
        path = fresh("s")
        step = {"cols": None}
        if h == 0 and case["type"] == "lexstat" and case.get("scorer"):
            random.seed(1234)
            obj.get_scorer(runs=50)
        if h == 0 and case["type"] == "alignments" and case.get("second_ref"):
            # alignments for a second cognate-id column: one more section of <msa> blocks in the file
            obj.add_alignments(ref=case["second_ref"])
            obj.align(method="progressive", ref=case["second_ref"])
            # align() writes its rows into the one ALIGNMENT column: finish with the main reference column, so that
            # the column agrees with msa['cogid'] (the invariant the state model is compared under)
            obj.align(method="progressive", swap_check=bool(case.get("swap_check")))
        if h == 0 and case["type"] == "alignments" and case.get("consensus") and obj.msa["cogid"]:
            # (get_consensus needs at least one aligned cognate set)
            obj.align(method="progressive", swap_check=bool(case.get("swap_check")))
            obj.get_consensus(gaps=case["consensus"] == "gaps")
        before = observe(obj)
        step["cols"], step["rows"] = before[1], before[2]
        step["stamp"] = stamp_lines(obj)
        lex = case["type"] == "lexstat"
        if lex:
            step["taxa"], step["concepts"] = list(obj.cols), sorted(obj.rows)   # plain str order, as lexstat.py:449 sorts
            step["pairs_before"] = _pairs(obj)
        if case["type"] == "alignments":
            if case.get("plant_local"):
                # align() never sets msa['local'] on a wordlist; a user (or a local-mode analysis) can:
                # mark every second column, so that the LOCAL line of the block is exercised
                for msa in obj.msa["cogid"].values():
                    msa["local"] = list(range(0, len(msa["alignment"][0]), 2))
            step["msa_saved"] = _msa_struct(obj)
            step["msa_refs"] = [str(r) for r in obj.msa]      # a reference column without any aligned set still gets its heading
            step["msa_saved_cogid"] = _msa_struct(obj, ["cogid"])
        obj.output("tsv", filename=path, prettify=case["prettify"], ignore=case.get("ignore", "all"))
        step["text"] = file_lines(path + ".tsv")
        try:
            loaded = loader(path + ".tsv")
            step["load"] = observe(loaded)
        except Unsupported:
            raise
        except Exception as e:
            loaded = None
            step["load"] = ("err", "%s: %s" % (type(e).__name__, e))
        if loaded is not None:
            if lex:
                step["pairs_after"] = _pairs(loaded)
            if case["type"] == "alignments":
                step["taxa"] = [str(t) for t in obj.cols]
                step["msa_loaded"] = _msa_struct(loaded)
                step["msa_loaded_cogid"] = _msa_struct(loaded, ["cogid"])
                # the alignments per cognate set are derived state: they must survive as they are
                ann = case.get("ignore", "all") == []      # blocks written: annotations and every reference column
                step["analysis"] = [_msa_state(obj, ann, ann), _msa_state(loaded, ann, ann)]
            if lex and case.get("scorer"):
                # the scoring functions, at the two decimals the file has; then the seeded calculation again on both
                sa, sb = _scorer_diff(obj, loaded)
                random.seed(99)
                obj.get_scorer(runs=50, force=True)
                random.seed(99)
                loaded.get_scorer(runs=50, force=True)
                ra, rb = _scorer_diff(obj, loaded, ("cscorer",))
                step["scorers"] = [sa, sb]
                step["analysis2"] = [ra, rb]
            if case.get("analysis"):
                a = _analyse(obj, case)
                b = _analyse(loaded, case)
                if case["type"] == "alignments":
                    step["analysis2"] = [a, b]
                else:
                    step["analysis"] = [a, b]
            if "scorers" in step:
                a, b = step.get("analysis") or [[], []]
                step["analysis"] = [list(a) + step["scorers"][0], list(b) + step["scorers"][1]]
        if case["type"] == "wordlist" and case["mode"] == "valid" and steps and "text" in steps[-1] \
                and loaded is not None:
            # nothing was analysed in between: saving the loaded object writes the same file again
            # (theorem C13_second_save_same_file); compared by bit 3
            step["analysis"] = [[[0, list(steps[-1]["text"])]], [[0, list(step["text"])]]]
        steps.append(step)
        os.remove(path + ".tsv")
        if loaded is None:
            break
        obj = loaded
    return {"steps": steps}


def pre_lines(text, pretty):
    """The meta / block section of a written file: the lines before the header line, without the '# Wordlist'
    line and the blank + '# DATA' lines of prettified output."""
    for i, l in enumerate(text):
        if l == "ID" or l.startswith("ID\t"):
            pre = text[:i]
            break
    else:
        return []
    if pretty:
        if pre[:1] == ["# Wordlist"]:
            pre = pre[1:]
        if pre[-2:] == ["", "# DATA"]:
            pre = pre[:-2]
    return pre


def NL(l):
    return "[" + ";".join("%d%%nat" % i for i in l) + "]"


def SLL(rows):
    return "[" + "; ".join(SL(r) for r in rows) + "]"


def _swaps_lit(sw):
    return "[" + ";".join("(%d%%nat,%d%%nat,%d%%nat)" % tuple(x) for x in sw) + "]"


def _cons_lit(c):
    return "None" if c is None else "(Some %s)" % SL(c)


def msa_lit(m):
    return "(mk_msa [%s] %s %s %s %s %s)" % (";".join(zs(i) for i in m["ids"]), SL(m["taxa"]), SLL(m["alm"]), NL(m["local"]),
                                            _swaps_lit(m["swaps"]), _cons_lit(m["cons"]))


def msa_read_lit(m):
    return "(mk_msa_read [%s] %s %s %s %s %s %s)" % (";".join(zs(i) for i in m["ids"]), SL(m["taxa"]), SLL(m["alm"]),
                                                    SLL(m["seqs"]), NL(m["local"]), _swaps_lit(m["swaps"]),
                                                    _cons_lit(m["cons"]))


def state_lit(ms, sort=False):
    ms = sorted(ms, key=lambda m: m["key"]) if sort else ms
    return "[" + "; ".join("(%s, %s)" % (zs(m["key"]), msa_read_lit(m)) for m in ms) + "]"


def _pairs_lit(p):
    return "[" + "; ".join("(%s, %s, [%s])" % (S(a), S(b), ";".join("(%s,%s)" % (zs(x), zs(y)) for x, y in v))
                           for a, b, v in p) + "]"


def _an_lit(a):
    return "[" + "; ".join("(%s, %s)" % (zs(k), SL(v)) for k, v in a) + "]"


def ser_render_step(case, step, which="analysis"):
    pretty = bool(case["prettify"])          # 'false' (the library's default) is a non-empty string: prettified
    lexp = "None"
    if "pairs_before" in step and "pairs_after" in step:
        lexp = "(Some (%s, %s, %s, %s))" % (SL(step["taxa"]), SL(step["concepts"]), _pairs_lit(step["pairs_before"]),
                                           _pairs_lit(step["pairs_after"]))
    an = re_an = "None"
    if step.get(which):
        a, b = step[which]
        lit = "(Some (%s, %s))" % (_an_lit(a), _an_lit(b))
        if which == "analysis2":
            re_an = lit
        else:
            an = lit
    msa = "None"
    if "msa_saved_cogid" in step and "msa_loaded_cogid" in step and "cogid" in step["cols"]:
        ci = step["cols"].index("cogid")
        cogids = sorted({c[ci][1] for _, c in step["rows"] if c[ci][0] == "int"})
        msa = "(Some (%s, [%s], %s, %s))" % (SL(step["taxa"]), ";".join(zs(k) for k in cogids),
                                            state_lit(step["msa_saved_cogid"], True),
                                            state_lit(step["msa_loaded_cogid"], True))
    return L.record("ser_case", [
        L.b(pretty), SL(step["cols"]), rows_lit(step["rows"]), SL(step["stamp"]), SL(pre_lines(step["text"], pretty)),
        SL(step["text"]),
        wl_lit(step["load"]), L.b(is_nfc(step["cols"], step["rows"])), lexp,
        L.b(case["type"] in ("lexstat", "alignments")), an, msa, re_an])


class _Ser:
    """One save/load step = one Coq case.  A generated case with a history is expanded into its steps."""
    IMPORTS = IMPORTS
    BITS = BITS

    @staticmethod
    def run_impl(case):
        if "step" in case:                   # already expanded (replay / shrink)
            return case["step"]
        raise RuntimeError("expand first")

    @staticmethod
    def render(case, res):
        return ser_render_step(case["case"], res, case.get("which", "analysis"))

    @staticmethod
    def nontrivial(case, res):
        return (case["case"]["mode"] == "valid" and len(res["rows"]) >= 2
                and any(c[0] in ("list", "ints", "int", "floats") for _, cells in res["rows"] for c in cells))

    @staticmethod
    def jsonable(case, res=None):
        c = {"case": case["case"], "step_index": case["index"]}
        if res is not None:
            c["impl"] = res
        return c

    @staticmethod
    def classify(case, res):
        out = ["type=" + case["case"]["type"], "mode=" + case["case"]["mode"], "rows=%d" % min(len(res["rows"]), 9),
               "prettify=%s" % bool(case["case"]["prettify"]), "step=%d" % case["index"],
               "load=" + res["load"][0]]
        kinds = sorted({c[0] for _, cells in res["rows"] for c in cells})
        out += ["has_" + k for k in kinds]
        for which in ("analysis", "analysis2"):
            for side in res.get(which) or []:
                if any(r.startswith("swaps=") for _, rows in side or [] for r in rows):
                    out.append("msa_with_swaps")
                    break
        if case["case"].get("ignore") == []:
            out.append("blocks_written")
        return out

    @staticmethod
    def model_expr(case, res, rundir):
        return None


SER = _Ser


def expand(cases, on_error=None):
    """Run every generated case through the implementation and flatten the histories into steps."""
    out = []
    for case in cases:
        try:
            r = ser_run(case)
        except Unsupported as e:
            if on_error:
                on_error(case, "unsupported", e)
            continue
        except Exception as e:
            if on_error:
                on_error(case, "raised", e)
            continue
        for i, st in enumerate(r["steps"]):
            out.append({"case": case, "index": i, "step": st})
            if "analysis2" in st:
                out.append({"case": case, "index": i, "step": st, "which": "analysis2",
                            "rescoring": case["type"] == "lexstat"})
    return out


class _Msa:
    """<msa> blocks of one save/load step of an Alignments object written with ignore=[]."""
    IMPORTS = IMPORTS
    BITS = BITS
    run_impl = staticmethod(lambda case: case["step"])

    @staticmethod
    def render(case, res):
        pretty = bool(case["case"]["prettify"])
        refs = list(res.get("msa_refs", []))
        for m in res["msa_saved"]:
            if m["ref"] not in refs:
                refs.append(m["ref"])
        secs = "[" + "; ".join(
            "(%s, [%s])" % (S(r), "; ".join("(%s, %s, %s)" % (zs(m["key"]), SL(m["stamp"]), msa_lit(m))
                                            for m in res["msa_saved"] if m["ref"] == r)) for r in refs) + "]"
        seqs = "[" + "; ".join(SLL(m["seqs"]) for r in refs for m in res["msa_saved"] if m["ref"] == r) + "]"
        load = "Err" if "msa_loaded" not in res else "(Ok [%s])" % "; ".join(
            "(%s, %s, %s)" % (S(m["ref"]), zs(m["key"]), msa_read_lit(m)) for m in res["msa_loaded"])
        return L.record("msa_case", [secs, seqs, SL(pre_lines(res["text"], pretty)), load])

    @staticmethod
    def nontrivial(case, res):
        return any(any("-" in r for r in m["alm"]) for m in res["msa_saved"])

    @staticmethod
    def jsonable(case, res=None):
        return _Ser.jsonable(case, res)

    @staticmethod
    def classify(case, res):
        out = ["blocks=%d" % min(len(res["msa_saved"]), 5), "step=%d" % case["index"]]
        if any(m["swaps"] for m in res["msa_saved"]):
            out.append("with_swaps")
        if any(m["local"] for m in res["msa_saved"]):
            out.append("with_local")
        if any(m["cons"] for m in res["msa_saved"]):
            out.append("with_consensus")
        if len({m["ref"] for m in res["msa_saved"]}) > 1:
            out.append("two_refs")
        if any(all(len(r) == 1 for r in m["alm"]) for m in res["msa_saved"]):
            out.append("one_column_set")
        return out


MSA = _Msa


def msa_steps(steps):
    return [s for s in steps if s["case"]["type"] == "alignments" and s["case"].get("ignore") == []
            and "msa_saved" in s["step"] and s.get("which", "analysis") == "analysis"]


# ----------------------------------------------------------------------------------------------
# the reader on arbitrary files
def model_row_text(cells):
    out = []
    for v in cells:
        if isinstance(v, list):
            out.append(" ".join(str(x) for x in v))
        elif v is None:
            out.append("")
        else:
            out.append(str(v))
    return out


def gen_textfile(rng):
    """A TSV file assembled by the harness: valid files with decoration, plus broken ones."""
    wl = gen_wordlist(rng, 6)
    d = wl["data"]
    hdr = list(d[0])
    idname = rng.choice(["ID", "ID", "ID", "id", "Id", "LOCAL_ID", "local_id", "localid", "LocalID", None, "IDS", "key"])
    hcase = rng.choice(["upper", "upper", "lower", "title", "mixed"])

    def hc(s):
        if hcase == "upper":
            return s.upper()
        if hcase == "lower":
            return s
        if hcase == "title":
            return s[:1].upper() + s[1:]
        return "".join(c.upper() if rng.random() < 0.5 else c for c in s)
    pad = rng.random() < 0.4

    def p(s):
        if pad and rng.random() < 0.3:
            return rng.choice(["", " ", "  ", " "]) + s + rng.choice(["", " ", "\x0b", "  "])
        return s
    lines = []
    if rng.random() < 0.5:
        lines.append("# Wordlist")
    for _ in range(rng.choice([0, 0, 1, 2])):
        lines.append(rng.choice(["", "# comment\tx", "#", "@author: someone", "@date:2020", "@k:v:w", "@note :  spaced ",
                                 "<note>\nfree text\n1\t2\n</note>", "<x id=\"1\">\n</x> trailing",
                                 "<taxa>\nA\nB\n</taxa>"]))
    head = ([idname] if idname is not None else []) + [hc(h) for h in hdr]
    lines.append("\t".join(p(h) for h in head))
    keys = [k for k in d if k != 0]
    for k in keys:
        if rng.random() < 0.15:
            lines.append(rng.choice(["#", "", "# block"]))
        cells = model_row_text(d[k])
        if rng.random() < 0.1 and cells:
            cells[rng.randrange(len(cells))] = rng.choice(["", "", " ", "0", "-", "1 2", "a"])   # empty / odd cells in typed columns
        kk = str(k)
        c = rng.random()
        if c < 0.03:
            kk = rng.choice(["0", "-3", "+4", "007", "1_1", " 5", "x", "", "1.0"])
        elif c < 0.06 and keys:
            kk = str(rng.choice(keys))          # duplicate id
        row = ([kk] if idname is not None else []) + cells
        if rng.random() < 0.04:
            row = row[:-1] if rng.random() < 0.5 else row + ["extra"]
        lines.append("\t".join(p(x) for x in row))
    c = rng.random()
    if c < 0.05:
        lines.append("<open>\nnever closed")
    elif c < 0.1:
        lines.append("@novalue")
    elif c < 0.15:
        lines.append("<broken")
    elif c < 0.2:
        lines.append(" ")
    text = "\n".join(lines) + ("\n" if rng.random() < 0.9 else "")
    text = text.replace("\r", "")
    return {"text": text, "loader": rng.choice(["Wordlist", "Wordlist", "QLCParser"])}


def rd_run(case):
    from lingpy import Wordlist
    from lingpy.basic.parser import QLCParser
    from lingpy import util
    path = fresh("r") + ".tsv"
    with open(path, "w", encoding="utf8", newline="") as f:
        f.write(case["text"])
    try:
        if case["loader"] == "Wordlist":
            obj = Wordlist(path)
        else:
            obj = QLCParser(path, conf=util.data_path("conf", "wordlist.rc"))
        res = observe(obj)
    except Unsupported:
        raise
    except Exception as e:
        res = ("err", "%s: %s" % (type(e).__name__, str(e)[:200]))
    finally:
        os.remove(path)
    return {"load": res, "lines": file_lines_of_text(case["text"])}


def file_lines_of_text(text):
    lines = text.split("\n")
    if lines and lines[-1] == "":
        lines.pop()
    return lines


class _Rd:
    IMPORTS = IMPORTS
    BITS = BITS
    run_impl = staticmethod(rd_run)

    @staticmethod
    def render(case, res):
        return L.record("rd_case", [SL(res["lines"]), L.b(case["loader"] == "Wordlist"), wl_lit(res["load"])])

    @staticmethod
    def nontrivial(case, res):
        return res["load"][0] == "ok" and len(res["load"][2]) >= 2

    @staticmethod
    def jsonable(case, res=None):
        c = dict(case)
        if res is not None:
            c["impl"] = res
        return c

    @staticmethod
    def classify(case, res):
        return ["loader=" + case["loader"], "load=" + res["load"][0]]

    @staticmethod
    def shrink(case):
        lines = case["text"].split("\n")
        for i in range(len(lines)):
            c = dict(case)
            c["text"] = "\n".join(lines[:i] + lines[i + 1:])
            yield c


RD = _Rd


# ----------------------------------------------------------------------------------------------
# <dst> and <scorer> blocks
def gen_float(rng):
    c = rng.random()
    if c < 0.3:
        return rng.randrange(0, 65) / 32.0               # exact ties at the fifth decimal: k/32
    if c < 0.5:
        return round(rng.random(), rng.choice([1, 2, 3, 4, 5, 6]))
    if c < 0.8:
        return rng.random()
    if c < 0.9:
        return rng.choice([0.0, 1.0, 0.5, 0.00005, 0.99995, 0.99994999, 0.12345, 0.12355, 2.5, 10.0, 123.456789])
    return rng.random() * rng.choice([10, 100])


def gen_score(rng):
    c = rng.random()
    if c < 0.3:
        return float(rng.randint(-10, 10))
    if c < 0.6:
        return rng.randrange(-320, 320) / 32.0
    if c < 0.8:
        return rng.choice([-22.5, 0.005, 0.015, 0.025, -0.005, -0.015, 1.005, 2.675, -2.675, 0.125, -0.125, 0.375,
                           -0.004, 9.995, -9.995])
    return (rng.random() - 0.5) * 20


def gen_block(rng):
    n = rng.choice([1, 2, 2, 3, 3, 4, 5])
    names = set()
    while len(names) < n:
        c = rng.random()
        if c < 0.6:
            names.add(gen_word(rng, 2, 8))
        elif c < 0.8:
            names.add(gen_word(rng, 9, 14))           # longer than the 10-character name field
        else:
            names.add(gen_word(rng, 2, 4) + " " + gen_word(rng, 1, 3))
    names = sorted(names)
    sym = rng.random() < 0.85
    m = [[0.0] * n for _ in range(n)]
    for i in range(n):
        for j in range(i + 1, n):
            m[i][j] = gen_float(rng)
            m[j][i] = m[i][j] if sym else gen_float(rng)
        if not sym and rng.random() < 0.5:
            m[i][i] = gen_float(rng)
    k = rng.choice([1, 2, 2, 3, 3, 4, 4, 5, 6, 6])
    chars = set()
    while len(chars) < k:
        chars.add(rng.choice(["1.", "2.", ""]) + rng.choice("ABCKPTSXV_") + "." + rng.choice("CcVv_-<"))
    chars = list(chars)
    rng.shuffle(chars)
    sc = [[gen_score(rng) for _ in range(k)] for _ in range(k)]
    return {"taxa": names, "dst": m, "chars": chars, "scorer": sc}


def _block(lines, tag):
    """The lines strictly between the first line starting with <tag and the next line starting with </tag>."""
    for i, l in enumerate(lines):
        if l.startswith("<" + tag):
            for j in range(i + 1, len(lines)):
                if lines[j].startswith("</" + tag + ">"):
                    return lines[i + 1:j]
    return None


def blk_run(case):
    from lingpy import Wordlist
    from lingpy.algorithm import misc
    ScoreDict = misc.ScoreDict
    taxa = case["taxa"]
    d = {0: ["doculect", "concept", "ipa"]}
    for i, t in enumerate(taxa):
        d[i + 1] = [t, "hand", "a"]
    wl = Wordlist(d)
    order = [taxa.index(t) for t in wl.cols]
    m = [[case["dst"][i][j] for j in order] for i in order]
    wl._meta["distances"] = [list(r) for r in m]
    wl._meta["scorer"] = {"custom": ScoreDict(list(case["chars"]), [list(r) for r in case["scorer"]])}
    path = fresh("b")
    wl.output("tsv", filename=path, ignore=[], prettify=False)
    lines = file_lines(path + ".tsv")
    res = {"taxa": list(wl.cols), "dst": [[str(F(x)) for x in r] for r in m],
           "dst_text": _block(lines, "dst"), "sc_text": _block(lines, "scorer"),
           "pre": pre_lines(lines, False)}             # the whole meta part the implementation wrote
    chars = sorted(case["chars"])
    idx = [case["chars"].index(c) for c in chars]
    res["chars"] = chars
    res["sc"] = [[str(F(case["scorer"][i][j])) for j in idx] for i in idx]
    try:
        wl2 = Wordlist(path + ".tsv")
        dl = wl2._meta["distances"]
        res["dst_load"] = [[str(F(repr(float(x)))) for x in r] for r in dl]
        s2 = wl2._meta["scorer"]["custom"]
        cs = sorted(s2.chars2int, key=lambda c: s2.chars2int[c])
        res["sc_load"] = [[c, [str(F(repr(float(x)))) for x in s2.matrix[s2.chars2int[c]]]] for c in cs]
    except Exception as e:
        res["error"] = "%s: %s" % (type(e).__name__, e)
        res.setdefault("dst_load", None)
        res.setdefault("sc_load", None)
        # one block can make the whole file unreadable (a one-symbol scorer, a name starting with '#'):
        # read each block from a file that holds only that block
        full_sc, full_dst = wl._meta.pop("scorer"), wl._meta["distances"]
        wl.output("tsv", filename=path, ignore=[], prettify=False)
        try:
            res["dst_load"] = [[str(F(repr(float(x)))) for x in r] for r in Wordlist(path + ".tsv")._meta["distances"]]
        except Exception as e2:
            res["error"] += " / dst: %s: %s" % (type(e2).__name__, e2)
        del wl._meta["distances"]
        wl._meta["scorer"] = full_sc
        wl.output("tsv", filename=path, ignore=[], prettify=False)
        try:
            s2 = Wordlist(path + ".tsv")._meta["scorer"]["custom"]
            cs = sorted(s2.chars2int, key=lambda c: s2.chars2int[c])
            res["sc_load"] = [[c, [str(F(repr(float(x)))) for x in s2.matrix[s2.chars2int[c]]]] for c in cs]
        except Exception as e2:
            res["error"] += " / scorer: %s: %s" % (type(e2).__name__, e2)
    os.remove(path + ".tsv")
    return res


def _qm(m):
    return "[" + "; ".join("[" + ";".join(Q(F(x)) for x in r) + "]" for r in m) + "]"


class _Blk:
    IMPORTS = IMPORTS
    BITS = BITS
    run_impl = staticmethod(blk_run)

    @staticmethod
    def render(case, res):
        dl = "None" if res["dst_load"] is None else "(Some %s)" % _qm(res["dst_load"])
        sl = "None" if res["sc_load"] is None else "(Some [%s])" % "; ".join(
            "(%s, [%s])" % (S(c), ";".join(Q(F(x)) for x in v)) for c, v in res["sc_load"])
        return L.record("blk_case", [SL(res["taxa"]), _qm(res["dst"]), SL(res["dst_text"] or []), dl,
                                     SL(res["chars"]), _qm(res["sc"]), SL(res["sc_text"] or []), sl,
                                     S("custom"), SL(res["pre"])])

    @staticmethod
    def nontrivial(case, res):
        return len(case["taxa"]) >= 2 and res["dst_load"] is not None

    @staticmethod
    def jsonable(case, res=None):
        c = dict(case)
        if res is not None:
            c["impl"] = res
        return c

    @staticmethod
    def classify(case, res):
        return ["n=%d" % len(case["taxa"]), "long_name" if any(len(t) > 10 for t in case["taxa"]) else "short_names",
                "loaded" if res["dst_load"] is not None else "load_failed"]


BLK = _Blk
