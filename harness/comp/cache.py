"""Component: start-up through the per-user cache (C20).

Fault enumeration against the real files.  A case is a list of rounds; a round damages the cache
directory (delete / truncate files, remove the directory) and then starts the library once or
twice.  Two ways of starting:
  inproc  the module-level code of lingpy/settings.py is re-executed (importlib.reload) with the
          cache directory redirected and cache.load / cache.dump / compile_model / compile_dvt /
          Model.__init__ / load_dvt wrapped from outside: complete event trace
  sub     a fresh interpreter runs `import lingpy` with XDG_CACHE_HOME redirected: what it hands out
          (rc(...)) and which files it rewrote (mtimes)
Nothing here touches the user's cache or build/xdg-cache: everything lives under build/c20-<pid>/.
Run as `python -m harness.comp.cache --child <json>` this file is also the child of `sub`."""
import hashlib
import importlib
import io
import json
import os
import pathlib
import pickle
import shutil
import subprocess
import sys
import threading
import unicodedata

IMPORTS = "From LV Require Import Common.Cases Runtime.Cache Runtime.CacheExec."
BITS = {0: "correspondence: the model of the start-up disagrees with what the start did",
        1: "a start raised",
        2: "a start handed out objects that differ from those built from the data files",
        3: "after a start a consulted cache entry is not the complete pickle of the right object",
        4: "a start that follows a start (no damage in between) compiled or wrote something",
        5: "decoder hypothesis contradicted: a truncated/emptied file unpickled, or a complete one did not",
        6: "a start compiled for a call whose cache entry was valid (rebuilds more than what is damaged)"}
OLD = 1_000_000_000          # mtime given to every file before a `sub` start


# ----------------------------------------------------------------------------------------------
# canonical digests of the objects handed out
def canon(o):
    t = type(o)
    if t is str or t is int or t is bool or o is None:
        return o
    if t is float:
        return ["float", o.hex()]
    if isinstance(o, dict):
        items = [[canon(k), canon(v)] for k, v in o.items()]
        try:
            items.sort()
        except TypeError:
            items.sort(key=lambda kv: json.dumps(kv[0]))
        return ["dict", items]
    if isinstance(o, (list, tuple)):
        return [type(o).__name__, [canon(x) for x in o]]
    if isinstance(o, (str, int)):
        return [type(o).__name__, o]
    if hasattr(o, "__dict__"):
        return ["obj", type(o).__name__, canon(vars(o))]
    return ["repr", repr(o)]


_DIGESTS = {}


def digest(o):
    """Canonical digest; memoised on the pickle bytes (equal bytes = equal structure)."""
    try:
        key = hashlib.sha256(pickle.dumps(o, protocol=4)).digest()
    except Exception:
        key = None
    if key is not None and key in _DIGESTS:
        return _DIGESTS[key]
    dg = hashlib.sha256(json.dumps(canon(o), ensure_ascii=True).encode()).hexdigest()[:24]
    if key is not None:
        _DIGESTS[key] = dg
    return dg


MISSING = "<no such attribute>"


def label_of_file(fname):
    """file name -> the object that belongs there, as the model names it"""
    if fname.endswith(".converter.pkl"):
        return (0, fname[:-len(".converter.pkl")])
    if fname.endswith(".scorer.pkl"):
        return (1, fname[:-len(".scorer.pkl")])
    if fname in ("dvt.pkl", "dvt_el.pkl"):
        return (2, fname[:-4])
    return (9, "".join(c if c.isalnum() else "_" for c in fname))


def dvt_dir(p):
    return "dvt" if p == "" else ("dvt_el" if p in ("el", "evolaemp") else p)


# ----------------------------------------------------------------------------------------------
# What the shipped data files say, read WITHOUT any lingpy code: the reference every object handed
# out by a start is compared with (full converter dictionaries, full scoring matrices, inventories).
def _src_text(path, lines=False):
    with io.open(path, encoding="utf-8-sig") as fp:
        if lines:
            return [unicodedata.normalize("NFC", ln.strip("\r\n")) for ln in fp]
        return unicodedata.normalize("NFC", fp.read())


def source_objects(src, dirs):
    """label -> canonical form of the object the data files define.
    (0, m): {sound: class} of data/models/m/converter ('CLASS : sound, sound, ...', NFC; a class listed
            twice keeps its last line); (1, m): the ScoreDict of data/models/m/matrix (tab separated, first
            cell = character, '#' lines and empty lines skipped, cells stripped, floats);
    (2, d): (diacritics without '-', vowels not among the diacritics, tones), newlines removed, NFC."""
    root = os.path.join(src, "lingpy", "data", "models")
    out = {}
    for d, files in dirs:
        p = os.path.join(root, d)
        if "converter" in files:
            classes = {}
            for line in _src_text(os.path.join(p, "converter"), lines=True):
                k, v = line.split(" : ")
                classes[k] = v.split(", ")
            out[(0, d)] = canon({s: k for k, sounds in classes.items() for s in sounds})
        if "matrix" in files:
            rows = [[c.strip() for c in ln.strip().split("\t")]
                    for ln in _src_text(os.path.join(p, "matrix"), lines=True) if ln and not ln.startswith("#")]
            out[(1, d)] = ["obj", "ScoreDict", canon({"chars2int": {r[0]: i for i, r in enumerate(rows)},
                                                      "matrix": [[float(x) for x in r[1:]] for r in rows]})]
        if all(f in files for f in ("diacritics", "vowels", "tones")):
            rd = lambda f: _src_text(os.path.join(p, f)).replace("\n", "")   # noqa: E731
            dia = rd("diacritics").replace("-", "")
            out[(2, d)] = canon((dia, "".join(v for v in rd("vowels") if v not in dia), rd("tones")))
    return out


def canon_digest(c):
    return hashlib.sha256(json.dumps(c, ensure_ascii=True).encode()).hexdigest()[:24]


def describe_difference(a, b):
    """a, b canonical forms; a short human-readable difference (first few differing dict keys)."""
    try:
        if a[0] == "dict" and b[0] == "dict":
            da, db = {json.dumps(k): v for k, v in a[1]}, {json.dumps(k): v for k, v in b[1]}
            ks = [k for k in sorted(set(da) | set(db)) if da.get(k, "<absent>") != db.get(k, "<absent>")]
            return "; ".join("key %s: %s vs %s" % (k, json.dumps(da.get(k, "<absent>")), json.dumps(db.get(k, "<absent>")))
                             for k in ks[:4]) + (" (+%d more)" % (len(ks) - 4) if len(ks) > 4 else "")
    except Exception:
        pass
    return "%s... vs %s..." % (json.dumps(a)[:120], json.dumps(b)[:120])


def wf_step_py(kind, arg, dirs):
    """Mirror of Cache.wf_step: the calls the real code serves whatever the cache holds."""
    D = dict(dirs)
    if kind == "dvt":
        return arg in ("", "el", "evolaemp") and all(f in D.get(dvt_dir(arg), []) for f in ("diacritics", "vowels", "tones"))
    fs = D.get(arg, [])
    return "converter" in fs and "INFO" in fs and ("matrix" in fs or ("scorer" not in fs and "scorer.bin" not in fs))


# ----------------------------------------------------------------------------------------------
class Lab:
    """Scratch directories, reference bytes and reference objects."""

    def __init__(self, src, steps, tag="", dirs=(), schemas=()):
        from ..lib import env
        self.env = env
        self.src = src
        self.steps = steps                      # from the translator: [{"kind","arg","key","targets"}]
        self.dirs = list(dirs)                  # from the translator: [(directory, [files])]
        self.schemas = list(schemas)            # from the translator: rc(schema=...) branches
        # every call that goes through the cache and that the code serves whatever the cache holds:
        # load_dvt with each accepted spelling of its path, Model(d) for every well-formed directory
        self.pool = [("dvt", a) for a in ("", "el", "evolaemp") if wf_step_py("dvt", a, self.dirs)] + \
                    [("model", d) for d, _ in self.dirs if wf_step_py("model", d, self.dirs)]
        self.root = os.path.join(env.BUILD, "c20-%d%s" % (os.getpid(), tag))
        shutil.rmtree(self.root, ignore_errors=True)
        os.makedirs(self.root)
        self.nsub = 0
        self.lock = threading.Lock()
        self.dec_checks = {"truncated_or_emptied_files_tried": 0, "of_which_raised": 0,
                           "complete_files_tried": 0, "of_which_loaded": 0}

    def close(self):
        shutil.rmtree(self.root, ignore_errors=True)

    # -- first real import: empty cache ------------------------------------------------------
    def boot(self):
        home = os.path.join(self.root, "home")
        os.makedirs(home)
        os.environ["XDG_CACHE_HOME"] = home
        if self.src in sys.path:
            sys.path.remove(self.src)
        sys.path.insert(0, self.src)
        assert "lingpy" not in sys.modules, "lingpy was imported before the C20 lab was set up"
        sys.stderr.flush()
        saved, devnull = os.dup(2), os.open(os.devnull, os.O_WRONLY)
        os.dup2(devnull, 2)
        try:
            import lingpy                      # noqa: the reference start, on an absent cache directory
        finally:
            sys.stderr.flush()
            os.dup2(saved, 2)
            os.close(devnull)
            os.close(saved)
        import logging
        logging.getLogger("lingpy").setLevel(logging.CRITICAL)
        assert os.path.abspath(lingpy.__file__).startswith(os.path.abspath(self.src)), lingpy.__file__
        from lingpy import cache
        self.version_dir = os.path.relpath(str(cache.DIR), home)       # lingpy/<version>
        assert str(cache.DIR).startswith(home), cache.DIR
        # the decoder under test is the code's own cache.load (whatever framing cache.dump uses), kept
        # here before anything is wrapped; it is always called with an explicit directory
        self.real_load = cache.load
        self.boot_dir = str(cache.DIR)
        self.ref_bytes = {f: open(os.path.join(str(cache.DIR), f), "rb").read()
                          for f in sorted(os.listdir(str(cache.DIR)))}
        self._reference_objects()
        self.work = pathlib.Path(self.root, "inproc", self.version_dir)
        self._extend_reference()

    def _reference_objects(self):
        """Reference = what the data files say (source_objects: no lingpy code involved).  The files the
        first start left must be the pickles of exactly these objects, over ALL keys."""
        self.src_canon = source_objects(self.src, self.dirs)
        self.ref_digest = {lab: canon_digest(c) for lab, c in self.src_canon.items()}
        self._check_reference_files(self.boot_dir, self.ref_bytes, "the start on an absent cache directory")
        need = {("dvt_el" if s["arg"] in ("el", "evolaemp") else "dvt") + ".pkl" if s["kind"] == "dvt"
                else s["arg"] + ".converter.pkl" for s in self.steps}
        missing = sorted(need - set(self.ref_bytes))
        if missing:
            raise RuntimeError("the first start did not write %s" % missing)

    def read_entry(self, d, fname):
        """What the code's own decoder makes of the file fname in directory d (raises as it raises)."""
        if fname.endswith(".pkl"):
            return self.real_load(fname[:-4], d=pathlib.Path(str(d)))
        with open(os.path.join(str(d), fname), "rb") as fp:      # a foreign file cache.load cannot name
            return pickle.load(fp)

    def _check_reference_files(self, d, files, who):
        for f, b in sorted(files.items()):
            lab = label_of_file(f)
            if lab not in self.ref_digest:
                raise RuntimeError("%s wrote %s, for which the data files define no object" % (who, f))
            obj = self.read_entry(d, f)
            if digest(obj) != self.ref_digest[lab]:
                raise RuntimeError("%s wrote %s, whose content differs from what the data files define: %s"
                                   % (who, f, describe_difference(canon(obj), self.src_canon[lab])))

    def _extend_reference(self):
        """The entries only the calls outside the import sequence use (dvt_el, the *_el models, ...):
        built once on top of the reference cache by making every call of the pool."""
        self.set_state(self.work, {}, False)
        r = self.start_inproc(self.work, ops=self.pool)
        if not r["ok"]:
            raise RuntimeError("on an intact cache the calls %s failed: %s" % (self.pool, r["error"]))
        d = str(self.work)
        allf = {f: open(os.path.join(d, f), "rb").read() for f in sorted(os.listdir(d))}
        for f, b in self.ref_bytes.items():
            if allf.get(f) != b:
                raise RuntimeError("the calls %s rewrote the intact entry %s" % (self.pool, f))
        self._check_reference_files(d, allf, "the calls outside the import sequence")
        self.import_files = sorted(self.ref_bytes)          # what a plain start writes
        self.ref_bytes = allf

    def schema_steps(self, v):
        """The calls rc(schema=v) makes (first branch whose spellings contain v; none: no call)."""
        for b in self.schemas:
            if v in b["names"]:
                return b["steps"]
        return []

    def expand(self, ops):
        """ops with ("schema", v) entries -> the plain calls, in order"""
        out = []
        for kind, arg in ops:
            out += [(s["kind"], s["arg"]) for s in self.schema_steps(arg)] if kind == "schema" else [(kind, arg)]
        return out

    # -- labelling ---------------------------------------------------------------------------
    def content(self, fname, b):
        ref = self.ref_bytes.get(fname)
        lab = label_of_file(fname)
        if ref is not None and b == ref:
            return (lab, None)
        if ref is not None and len(b) < len(ref) and ref[:len(b)] == b:
            return (lab, len(b))
        return ((9, lab[1] if lab[0] == 9 else "other_" + lab[1]), len(b))

    def snapshot(self, d):
        d = str(d)
        if not os.path.isdir(d):
            return False, {}
        return True, {f: self.content(f, open(os.path.join(d, f), "rb").read()) for f in sorted(os.listdir(d))
                      if os.path.isfile(os.path.join(d, f))}

    def decoder_obs(self, d):
        """file -> did the code's decoder (cache.load) raise on it"""
        d, out = str(d), {}
        if os.path.isdir(d):
            for f in sorted(os.listdir(d)):
                try:
                    self.read_entry(d, f)
                    out[f] = False
                except Exception:
                    out[f] = True
        return out

    def val_label(self, kind, name, dg):
        return (kind, name) if self.ref_digest.get((kind, name)) == dg else (9, "differs")

    # -- damage ------------------------------------------------------------------------------
    def set_state(self, d, faults, rmdir, from_reference=True):
        d = str(d)
        if from_reference:
            shutil.rmtree(d, ignore_errors=True)
            os.makedirs(d)
            for f, b in self.ref_bytes.items():
                with open(os.path.join(d, f), "wb") as fp:
                    fp.write(b)
        for f, op in sorted(faults.items()):
            p = os.path.join(d, f)
            if op[0] == "del":
                if os.path.exists(p):
                    os.remove(p)
            elif op[0] == "cut":
                if os.path.exists(p):
                    with open(p, "rb") as fp:
                        b = fp.read()
                    with open(p, "wb") as fp:
                        fp.write(b[:op[1]])
            elif op[0] == "add":                  # a foreign file
                os.makedirs(d, exist_ok=True)
                with open(p, "wb") as fp:
                    fp.write(b"not a pickle " * op[1])
        if rmdir:
            shutil.rmtree(os.path.dirname(d) if rmdir == "parent" else d, ignore_errors=True)

    # -- in-process start ----------------------------------------------------------------------
    def start_inproc(self, d, ops=None):
        """ops=None: re-execute the module-level code of settings.py; else make the given calls
        [("dvt", path) | ("model", name)] in order (an exception ends the sequence)."""
        import lingpy.cache as cache
        import lingpy.data.model as M
        import lingpy.settings as S
        d = pathlib.Path(d)
        ev, objs = [], []
        o_load, o_dump, o_path = cache.load, cache.dump, cache.path
        o_defaults = (o_load.__defaults__, o_dump.__defaults__, o_path.__defaults__)
        o_cm, o_cd, o_init, o_ldvt = M.compile_model, M.compile_dvt, M.Model.__init__, M.load_dvt

        def load(filename, d_=None):
            try:
                v = o_load(filename, d=d)
            except FileNotFoundError:
                ev.append(("load", str(filename), "notfound"))
                raise
            except BaseException:
                ev.append(("load", str(filename), "undecodable"))
                raise
            ev.append(("load", str(filename), "loaded"))
            return v

        def dump(data, filename, d_=None):
            ev.append(("dump", str(filename)))
            return o_dump(data, filename, d=d)

        def cm(model, path=None):
            ev.append(("cmodel", str(model)))
            return o_cm(model, path)

        def cd(path=''):
            ev.append(("cdvt", str(path)))
            return o_cd(path)

        def init(self_, model, path=None):
            ev.append(("model", str(model)))
            o_init(self_, model, path)
            objs.append(("model", str(model), self_))

        def ldvt(path=''):
            ev.append(("dvt", str(path)))
            v = o_ldvt(path)
            objs.append(("dvt", str(path), v))
            return v

        ok, err = True, None
        try:
            cache.load, cache.dump = load, dump
            for f in (o_load, o_dump, o_path):
                f.__defaults__ = (d,)
            M.compile_model, M.compile_dvt, M.load_dvt = cm, cd, ldvt
            M.Model.__init__ = init
            try:
                if ops is None:
                    importlib.reload(S)
                else:
                    for kind, arg in ops:
                        if kind == "dvt":
                            M.load_dvt(arg)
                        elif kind == "schema":
                            S.load_dvt = ldvt          # rc() uses the names settings.py imported
                            S.rc(schema=arg)
                        else:
                            M.Model(arg)
            except BaseException as e:     # noqa: whatever leaves the module-level code
                if isinstance(e, (KeyboardInterrupt, SystemExit)):
                    raise
                ok, err = False, "%s: %s" % (type(e).__name__, e)
        finally:
            cache.load, cache.dump = o_load, o_dump
            o_load.__defaults__, o_dump.__defaults__, o_path.__defaults__ = o_defaults
            M.compile_model, M.compile_dvt, M.load_dvt = o_cm, o_cd, o_ldvt
            M.Model.__init__ = o_init
            S.load_dvt = o_ldvt
        vals = []
        for kind, arg, o in objs:
            if kind == "dvt":
                vals.append(("dvt", self.val_label(2, dvt_dir(arg), digest(o))))
            else:
                cv = getattr(o, "converter", MISSING)
                sc = getattr(o, "scorer", None)
                vals.append(("model", self.val_label(0, arg, digest(cv)),
                             None if sc is None else self.val_label(1, arg, digest(sc))))
        dir_after, files_after = self.snapshot(d)
        return {"ok": ok, "error": err, "events": ev, "vals": vals, "dir": dir_after, "files": files_after,
                "seq": "import" if ops is None else [list(o) for o in ops]}

    # -- subprocess start ----------------------------------------------------------------------
    def start_sub(self, home, hashseed, ops=None):
        ops = [list(o) for o in (ops or [])]
        d = os.path.join(home, self.version_dir)
        before = {}
        if os.path.isdir(d):
            for f in os.listdir(d):
                os.utime(os.path.join(d, f), (OLD, OLD))
                before[f] = True
        e = self.env.subprocess_env(hashseed, cache=home)
        e["PYTHONPATH"] = self.src + os.pathsep + self.env.VERIF
        req = json.dumps({"steps": [{"kind": s["kind"], "arg": s["arg"], "key": s["key"], "targets": s["targets"]}
                                    for s in self.steps], "ops": ops, "schemas": self.schemas})
        p = subprocess.run([self.env.PY, "-m", "harness.comp.cache", "--child", req], cwd=self.env.VERIF, env=e,
                           capture_output=True, text=True, timeout=300)
        out = None
        for line in p.stdout.splitlines():
            if line.startswith("C20CHILD "):
                out = json.loads(line[len("C20CHILD "):])
        if out is None:
            out = {"ok": False, "error": "child died rc=%s: %s" % (p.returncode, p.stderr[-600:]), "vals": []}
        vals = []
        if out["ok"]:
            calls = [(s["kind"], s["arg"]) for s in self.steps] + self.expand([tuple(o) for o in ops])
            for (kind, arg), v in zip(calls, out["vals"]):
                if kind == "dvt":
                    vals.append(("dvt", self.val_label(2, dvt_dir(arg), v[0])))
                else:
                    vals.append(("model", self.val_label(0, arg, v[0]),
                                 None if v[1] is None else self.val_label(1, arg, v[1])))
        dir_after, files_after = self.snapshot(d)
        written = sorted(f for f in files_after if os.stat(os.path.join(d, f)).st_mtime != OLD)
        ev = [("dump", f[:-4] if f.endswith(".pkl") else f) for f in written]
        return {"ok": bool(out["ok"]), "error": out.get("error"), "events": ev, "vals": vals, "dir": dir_after,
                "files": files_after, "seq": {"import_plus": ops} if ops else "import"}


# ----------------------------------------------------------------------------------------------
# the component interface used by lib/driver.run_stream
LAB = None            # set by props/C20.py
SUB_RESULTS = {}      # case id -> result, filled in parallel by props/C20.py before run_stream


def run_case(lab, case, workdir=None):
    """Runs all rounds of a case; returns the observations."""
    sub = case["kind"] == "sub"
    if sub:
        lab.nsub += 1
        home = workdir or os.path.join(lab.root, "sub", "%s" % case["id"])
        shutil.rmtree(home, ignore_errors=True)
        d = os.path.join(home, lab.version_dir)
    else:
        d = str(lab.work)
    rounds = []
    for i, rd in enumerate(case["rounds"]):
        fresh = (i == 0)
        if fresh and sub and case.get("seed_state") == "absent":
            os.makedirs(home, exist_ok=True)
            lab.set_state(d, rd["faults"], rd.get("rmdir"), from_reference=False)
        else:
            lab.set_state(d, rd["faults"], rd.get("rmdir"), from_reference=fresh)
        dir0, files0 = lab.snapshot(d)
        dec = lab.decoder_obs(d)
        starts = []
        specs = rd.get("starts", 2)
        if isinstance(specs, int):
            specs = ["import"] * specs
        for sp in specs:                 # "import" | {"ops": [[kind, arg], ...]}
            ops = None if sp == "import" else [tuple(o) for o in sp["ops"]]
            if ops is not None and not all(o in lab.pool for o in lab.expand(ops)):
                raise RuntimeError("call outside the pool of modelled calls: %s" % (ops,))
            starts.append(lab.start_sub(home, case.get("hashseed", 0), ops) if sub else lab.start_inproc(d, ops))
        rounds.append({"dir": dir0, "files": files0, "dec": dec, "starts": starts})
    if sub and not workdir:
        shutil.rmtree(home, ignore_errors=True)
    names = set(lab.ref_bytes)
    for r in rounds:
        names |= set(r["files"])
        for s in r["starts"]:
            names |= set(s["files"])
    return {"rounds": rounds, "names": sorted(names)}


def run_impl(case):
    if case.get("id") in SUB_RESULTS:            # computed ahead (worker threads / worker processes)
        r = SUB_RESULTS.pop(case["id"])
        if isinstance(r, Exception):
            raise r
    else:
        r = run_case(LAB, case)
    for rd in r["rounds"]:                       # decoder hypothesis bookkeeping (judged in Coq, bit 5)
        for f, c in rd["files"].items():
            if f in LAB.ref_bytes and c[0][0] != 9:
                part = c[1] is not None
                LAB.dec_checks["truncated_or_emptied_files_tried" if part else "complete_files_tried"] += 1
                if part and rd["dec"].get(f) is True:
                    LAB.dec_checks["of_which_raised"] += 1
                if not part and rd["dec"].get(f) is False:
                    LAB.dec_checks["of_which_loaded"] += 1
    # rendered here, not in render(): the driver reads IMPORTS (which carries the Definitions the
    # literal refers to) before it calls render() on shrink candidates
    r["_lit"] = _render(case, r)
    return r


# -- rendering ---------------------------------------------------------------------------------
# Literals are dominated by strings and by lists that recur in almost every case (the intact file
# list, the quiet event trace, the reference values).  Parsing them is what costs time in Coq, so
# every string, and every list literal seen for the second time, becomes a Definition placed after
# the imports (IMPORTS is re-read by the driver when it writes the shard files).
from ..lib import coqlit as L   # noqa: E402  (not needed by the child)

BASE_IMPORTS = IMPORTS
_SYMS, _SEEN, _DEFS = {}, set(), []


def _define(ty, text):
    global IMPORTS
    key = (ty, text)
    if key not in _SYMS:
        _SYMS[key] = "k%d" % len(_SYMS)
        _DEFS.append("Definition %s : %s := %s." % (_SYMS[key], ty, text))
        IMPORTS = BASE_IMPORTS + "\n" + "\n".join(_DEFS)
    return _SYMS[key]


def _memo(ty, text):
    key = (ty, text)
    if key in _SYMS or key in _SEEN:
        return _define(ty, text)
    _SEEN.add(key)
    return text


def _str(s):
    return _define("string", L.string(s))


def _val(lab):
    return L.pair(L.nat(lab[0]), _str(lab[1]))


def _file(f, c):
    if c[1] is None:
        return _define("(string * xcontent)", L.pair(_str(f), L.pair(_val(c[0]), "None")))
    return L.pair(_str(f), L.pair(_val(c[0]), "(Some %s)" % L.z(c[1])))


def _files(fl):
    return _memo("list (string * xcontent)", L.lst([_file(f, c) for f, c in sorted(fl.items())]))


_OUT = {"notfound": "ONotFound", "undecodable": "OUndecodable", "loaded": "OLoaded"}


def _event(e):
    k = e[0]
    if k == "load":
        return "(ELoad %s %s)" % (_str(e[1]), _OUT[e[2]])
    return "(%s %s)" % ({"dvt": "EDvt", "model": "EModel", "dump": "EDump", "cmodel": "ECompileModel",
                         "cdvt": "ECompileDvt"}[k], _str(e[1]))


def _step(o):
    return "(%s %s)" % ("LoadDvt" if o[0] == "dvt" else "NewModel", _str(o[1]))


def _ops_seq(ops):
    """ops (plain calls and ("schema", v)) -> Gallina list step; the branch of a schema switch is
    selected in Coq from the regenerated table, not here"""
    segs, plain = [], []
    for o in ops:
        if o[0] == "schema":
            if plain:
                segs.append(L.lst([_step(x) for x in plain]))
                plain = []
            segs.append("schema_seq LVGen.SettingsModels.schema_seqs %s" % _str(o[1]))
        else:
            plain.append(o)
    if plain or not segs:
        segs.append(L.lst([_step(x) for x in plain]))
    return segs


def _seq(s):
    if s == "import":
        return "LVGen.SettingsModels.import_seq"
    if isinstance(s, dict):
        return "(%s)%%list" % " ++ ".join(["LVGen.SettingsModels.import_seq"] + _ops_seq(s["import_plus"]))
    return _memo("list step", "(%s)%%list" % " ++ ".join(_ops_seq(s)))


def _sval(v):
    if v[0] == "dvt":
        return "(VDvt %s)" % _val(v[1])
    return "(VModel %s %s)" % (_val(v[1]), "None" if v[2] is None else "(Some %s)" % _val(v[2]))


def render(case, res):
    return res["_lit"] if "_lit" in res else _render(case, res)


def _render(case, res):
    rounds = []
    for r in res["rounds"]:
        starts = [L.record("start_obs", [_seq(s["seq"]), L.b(s["ok"]),
                                         _memo("list event", L.lst([_event(e) for e in s["events"]])),
                                         _memo("list (sval xvalue)", L.lst([_sval(v) for v in s["vals"]])),
                                         L.b(s["dir"]), _files(s["files"])])
                  for s in r["starts"]]
        rounds.append(L.record("round_obs", [
            L.b(r["dir"]), _files(r["files"]),
            _memo("list (string * bool)", L.lst([L.pair(_str(f), L.b(x)) for f, x in sorted(r["dec"].items())])),
            L.lst(starts)]))
    return L.record("cache_case", [L.b(case["kind"] == "inproc"),
                                   _memo("list string", L.lst([_str(n) for n in res["names"]])),
                                   L.lst(rounds)])


def nontrivial(case, res):
    """Non-trivial: some start had to rebuild something (a dump happened)."""
    return any(any(e[0] == "dump" for e in s["events"]) for r in res["rounds"] for s in r["starts"])


def classify(case, res):
    out = [case["kind"] + ":" + case.get("family", "?")]
    nd = sum(1 for r in res["rounds"] for s in r["starts"] for e in s["events"] if e[0] == "dump")
    out.append("dumps=%s" % ("0" if nd == 0 else "1-3" if nd <= 3 else "4+"))
    return out


def jsonable(case, res=None):
    c = json.loads(json.dumps(case))
    c.pop("id", None)                         # bookkeeping only; distinctness is by the damage
    if res is not None:
        c["impl"] = json.loads(json.dumps({k: v for k, v in res.items() if k != "_lit"}, default=str))
    return c


def from_json(c):
    case = dict(c)
    case.pop("impl", None)
    for rd in case["rounds"]:
        rd["faults"] = {f: tuple(op) for f, op in rd["faults"].items()}
    return case


def shrink(case):
    if case["kind"] != "inproc":
        return
    for i, rd in enumerate(case["rounds"]):
        if len(rd["faults"]) > 2:                      # straight to one fault, if one alone suffices
            for f in sorted(rd["faults"]):
                c = from_json(json.loads(json.dumps(case)))
                c["rounds"][i]["faults"] = {f: tuple(rd["faults"][f])}
                yield c
    for i, rd in enumerate(case["rounds"]):
        for f in sorted(rd["faults"]):
            c = json.loads(json.dumps(case))
            c = from_json(c)
            del c["rounds"][i]["faults"][f]
            if c["rounds"][i]["faults"] or c["rounds"][i].get("rmdir"):
                yield c
        if rd.get("rmdir") and rd["faults"]:
            c = from_json(json.loads(json.dumps(case)))
            c["rounds"][i]["rmdir"] = False
            yield c


# ----------------------------------------------------------------------------------------------
def _child(req):
    out = {"ok": True, "vals": [], "error": None}
    try:
        import logging
        logging.disable(logging.CRITICAL)
        import lingpy                        # noqa: the start under observation
        import lingpy.settings as S
        from lingpy._settings import rcParams

        def model_vals(o):
            sc = getattr(o, "scorer", None)
            return [digest(getattr(o, "converter", MISSING)), None if sc is None else digest(sc)]
        for st in req["steps"]:
            if st["kind"] == "dvt":
                out["vals"].append([digest(tuple(getattr(S, t) for t in st["targets"])), None])
            else:
                out["vals"].append(model_vals(rcParams[st["key"]]))
        from lingpy.data.model import Model, load_dvt
        for kind, arg in req["ops"]:         # calls made after the import, in the same interpreter
            if kind == "schema":
                S.rc(schema=arg)
                for b in req["schemas"]:
                    if arg in b["names"]:
                        for st in b["steps"]:
                            if st["kind"] == "dvt":
                                out["vals"].append([digest((rcParams["diacritics"], rcParams["vowels"],
                                                            rcParams["tones"])), None])
                            else:
                                out["vals"].append(model_vals(rcParams[st["key"]]))
                        break
            else:
                out["vals"].append([digest(load_dvt(arg)), None] if kind == "dvt" else model_vals(Model(arg)))
    except BaseException as e:               # noqa
        out = {"ok": False, "vals": [], "error": "%s: %s" % (type(e).__name__, e)}
    sys.stdout.write("\nC20CHILD " + json.dumps(out) + "\n")
    sys.stdout.flush()


if __name__ == "__main__":
    if len(sys.argv) == 3 and sys.argv[1] == "--child":
        _child(json.loads(sys.argv[2]))
