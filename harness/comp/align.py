"""Component: pairwise alignment (calign, talign).  Generator, implementation runner,
Gallina case rendering.  Used by C01, C02, C03."""
import itertools
import random
from fractions import Fraction as F

from ..lib import coqlit as L

IMPORTS = "From LV Require Import Common.Cases Align.DP Align.Calign Align.CalignExec."
MODES = ["global", "overlap", "local", "dialign"]
COQ_MODE = {"global": "Global", "overlap": "Overlap", "local": "Local", "dialign": "Dialign"}
PRO = "ABCLMNXYZT_"           # prosodic alphabet; T and _ are the restricted characters
ALPHA = "abcd"
FN = {("global", False): "globalign", ("global", True): "secondary_globalign",
      ("overlap", False): "semi_globalign", ("overlap", True): "secondary_semi_globalign",
      ("local", False): "localign", ("local", True): "secondary_localign",
      ("dialign", False): "dialign", ("dialign", True): "secondary_dialign"}
TFN = {"global": "globalign", "overlap": "semi_globalign", "local": "localign", "dialign": "dialign"}

WEIGHTS = [F(0), F(1, 2), F(1), F(3, 2), F(2)]
SCALES = [F(1), F(1, 2), F(1, 4), F(3, 4)]
FACTORS = [F(0), F(1, 4), F(1, 2), F(1)]
GOPS = [F(-1), F(-2), F(-3), F(-1, 2), F(0), F(1)]


def sym(c):
    return ord(c) - ord("a") + 1


def gen_scorer(rng, alpha, kind=None):
    kind = kind or rng.choice(["ident", "rand", "asym", "rand"])
    sc = {}
    for a in alpha:
        for b in alpha:
            if kind == "ident":
                v = F(1) if a == b else F(-1)
            elif kind == "rand":
                v = F(rng.randint(-4, 6), rng.choice([1, 1, 2]))
                if a > b:
                    v = sc[b, a]
            else:
                v = F(rng.randint(-4, 6), rng.choice([1, 2]))
            sc[a, b] = v
    return sc


def gen_case(rng, maxlen=6, fn=None):
    alpha = ALPHA[:rng.choice([2, 2, 3, 4])]
    la, lb = rng.randint(1, maxlen), rng.randint(1, maxlen)
    if rng.random() < 0.15:
        la = rng.randint(1, 2)
        lb = rng.randint(maxlen - 1, maxlen + 2)   # very unequal lengths
    sa = [rng.choice(alpha) for _ in range(la)]
    sb = [rng.choice(alpha) for _ in range(lb)]
    if rng.random() < 0.25:
        sb = list(sa)
        if sb and rng.random() < 0.5:
            sb[rng.randrange(len(sb))] = rng.choice(alpha)
    fn = fn if fn is not None else rng.choice([0, 0, 0, 1, 1, 2, 3, 4, 4, 6, 6, 7, 7, 8, 9])
    mode = rng.choice(MODES)
    proset = rng.choice(["AX", "AXT", "ABCLMNXYZT_", "AXT_", "CV"])
    pa = [rng.choice(proset) for _ in sa]
    pb = [rng.choice(proset) for _ in sb]
    rch = rng.choice(["T_", "T_", "T", ""]) if fn in (0, 1, 4, 6) else ""
    sec = rng.random() < 0.5
    batch = []
    if fn in (4, 6, 8, 9):      # companions in the same align_pairs / align_pairwise call: other pairs, with / without restricted characters
        for _ in range(rng.randint(1, 2)):
            oa = [rng.choice(alpha) for _ in range(rng.randint(1, 4))]
            ob = [rng.choice(alpha) for _ in range(rng.randint(1, 4))]
            ps = rng.choice(["AX", "AXT_", "T_"])
            batch.append({"seqA": oa, "seqB": ob, "proA": [rng.choice(ps) for _ in oa], "proB": [rng.choice(ps) for _ in ob],
                          "wA": [rng.choice(WEIGHTS) for _ in oa], "wB": [rng.choice(WEIGHTS) for _ in ob]})
    if fn in (4, 8) and rng.random() < 0.4:
        # the same batch also holds the MIRROR image of this pair (and sometimes a copy of it)
        batch.append({"seqA": list(sb), "seqB": list(sa), "proA": list(pb), "proB": list(pa),
                      "wA": None, "wB": None})
        if rng.random() < 0.3:
            batch.append({"seqA": list(sa), "seqB": list(sb), "proA": list(pa), "proB": list(pb), "wA": None, "wB": None})
    scorer = gen_scorer(rng, alpha)
    if fn == 7 and rng.random() < 0.4:
        # pw_align builds its own scorer when none is passed: 1 for identical symbols, -1 otherwise
        scorer = {(a, b): (F(1) if a == b else F(-1)) for a in alpha for b in alpha}
        default_scorer = True
    else:
        default_scorer = False
    if fn == 9:
        for a in alpha:
            if scorer[a, a] <= 0:
                scorer[a, a] = F(rng.randint(1, 6), rng.choice([1, 2]))
    if fn == 6:
        if rng.random() < 0.3:      # same class sequence, different prosody
            sb = list(sa)
            pb = [rng.choice(proset) for _ in sb]
        # align_pairwise divides by simA + simB for every pair of the batch: keep all self-scores positive
        for a in alpha:
            if scorer[a, a] <= 0:
                scorer[a, a] = F(rng.randint(1, 6), rng.choice([1, 2]))
        sec = bool(set(rch) & set(pa + pb + [c for o in batch for c in o["proA"]]))
    wA, wB = [rng.choice(WEIGHTS) for _ in sa], [rng.choice(WEIGHTS) for _ in sb]
    for o in batch:
        if o["wA"] is None:       # mirror / copy of this pair: the weights go with the sequences
            mirrored = o["seqA"] == sb and o["proA"] == pb and not (o["seqA"] == sa and o["proA"] == pa)
            o["wA"], o["wB"] = (list(wB), list(wA)) if mirrored else (list(wA), list(wB))
    case = {
        "batch": batch, "batch_pos": rng.randint(0, len(batch)),
        "fn": fn, "mode": mode, "sec": sec,
        "seqA": sa, "seqB": sb, "proA": pa, "proB": pb,
        "wA": wA, "wB": wB,
        "gop": rng.choice(GOPS), "scale": rng.choice(SCALES), "factor": rng.choice(FACTORS),
        "scorer": scorer, "r": rch, "alpha": alpha,
        "default_scorer": default_scorer, "container": rng.choice(["str", "tuple", "list"]),
        "omit": sorted(k for k in ("gop", "scale", "mode") if rng.random() < 0.25) if fn == 7 else [],
        # pw_align only: this letter is handed over as a BLANK (a legal symbol of a string, a tuple or a list)
        "blank": rng.choice(alpha) if fn == 7 and rng.random() < 0.35 else None,
        # ... or as a combining mark (a str input must be taken code point by code point, not normalised)
        "blank_char": rng.choice([" ", " ", "\u0303", "\u0301", "ts", "t\u02b0"]),
    }
    # a keyword that is left out takes the documented default of pw_align; the case records the effective value
    for k, v in (("gop", F(-1)), ("scale", F(1, 2)), ("mode", "global")):
        if k in case["omit"]:
            case[k] = v
    return case


def exhaustive_cases(maxlen=3, alpha="ab"):
    """All sequence pairs over a 2-letter alphabet up to maxlen x all modes x primary/secondary
    x a small parameter grid, through the direct functions."""
    params = [(F(-1), F(1), F(0)), (F(-2), F(1, 2), F(1, 2)), (F(-1), F(1, 2), F(0)), (F(1), F(1, 2), F(1, 4))]
    sc1 = {(a, b): (F(2) if a == b else F(-1)) for a in alpha for b in alpha}
    sc2 = {("a", "a"): F(1), ("a", "b"): F(0), ("b", "a"): F(2), ("b", "b"): F(-1)}
    seqs = [list(t) for n in range(1, maxlen + 1) for t in itertools.product(alpha, repeat=n)]
    k = 0
    for sa in seqs:
        for sb in seqs:
            for mode in MODES:
                for sec in (False, True):
                    for (gop, scale, factor) in params:
                        k += 1
                        # prosodic strings cycle deterministically through a few patterns
                        pats = ["A", "AX", "XT", "TA", "AXT", "T_A"]
                        pa = [pats[k % len(pats)][i % len(pats[k % len(pats)])] for i in range(len(sa))]
                        pb = [pats[(k // 7) % len(pats)][i % len(pats[(k // 7) % len(pats)])] for i in range(len(sb))]
                        yield {"batch": [], "batch_pos": 0, "fn": 0, "mode": mode, "sec": sec, "seqA": sa, "seqB": sb, "proA": pa, "proB": pb,
                               "wA": [F(1)] * len(sa), "wB": [[F(1), F(1, 2)][(k + i) % 2] for i in range(len(sb))],
                               "gop": gop, "scale": scale, "factor": factor,
                               "scorer": sc1 if k % 3 else sc2, "r": "T_", "alpha": alpha}


def _row(row):
    return [None if x == "-" else sym(x) for x in row]


def canon_out(out, local):
    if local:
        (pa, a, sa), (pb, b, sb), sim = out[0], out[1], out[2]
        return {"kind": "local", "preA": [sym(x) for x in pa], "almA": _row(a), "sufA": [sym(x) for x in sa],
                "preB": [sym(x) for x in pb], "almB": _row(b), "sufB": [sym(x) for x in sb], "sim": F(sim)}
    a, b, sim = out[0], out[1], out[2]
    return {"kind": "global", "almA": _row(a), "almB": _row(b), "sim": F(sim)}


def run_impl(case):
    from lingpy.algorithm.cython import _calign as calign, _talign as talign
    sa, sb = list(case["seqA"]), list(case["seqB"])
    M, N = len(sa), len(sb)
    scorer = {k: float(v) for k, v in case["scorer"].items()}
    mode = case["mode"]
    local = mode == "local"
    scale, factor = float(case["scale"]), float(case["factor"])
    pa, pb = "".join(case["proA"]), "".join(case["proB"])
    res = {}
    if case["fn"] == 0:
        gA = [float(case["gop"] * w) for w in case["wA"]]
        gB = [float(case["gop"] * w) for w in case["wB"]]
        f = getattr(calign, FN[mode, case["sec"]])
        if mode == "dialign":
            args = [sa, sb, pa, pb, M, N, scale, factor, scorer]
        else:
            args = [sa, sb, gA, gB, pa, pb, M, N, scale, factor, scorer]
        if case["sec"]:
            args.append(case["r"])
        out = f(*args)
        out = f(*args)           # same argument objects again: the second result is the one compared
    elif case["fn"] == 1:
        # guard of the distance formula: selfA + selfB = 0 makes the Python divide by zero
        denom = sum((1 + case["factor"]) * case["scorer"][x, x] for x in sa + sb)
        fwA, fwB = [float(w) for w in case["wA"]], [float(w) for w in case["wB"]]
        for _ in range(2):       # same argument objects twice: the second result is the one compared
            out = calign.align_pair(sa, sb, fwA, fwB, pa, pb,
                                    float(case["gop"]), scale, factor, scorer, mode, case["r"], 2 if denom else 0)
        res["dist"] = F(out[3]) if denom else None
    elif case["fn"] == 4:
        denom = sum((1 + case["factor"]) * case["scorer"][x, x] for x in sa + sb)
        for o in case["batch"]:
            if sum((1 + case["factor"]) * case["scorer"][x, x] for x in o["seqA"] + o["seqB"]) == 0:
                denom = 0
        me = {"seqA": sa, "seqB": sb, "proA": case["proA"], "proB": case["proB"], "wA": case["wA"], "wB": case["wB"]}
        pairs = list(case["batch"])
        pos = case["batch_pos"]
        pairs.insert(pos, me)
        a_seqs = [(list(q["seqA"]), list(q["seqB"])) for q in pairs]
        a_gops = [([float(w) for w in q["wA"]], [float(w) for w in q["wB"]]) for q in pairs]
        a_pros = [("".join(q["proA"]), "".join(q["proB"])) for q in pairs]
        for _ in range(2):       # the way Pairwise re-uses self.classes / self.weights between align() calls
            outs = calign.align_pairs(a_seqs, a_gops, a_pros,
                                      float(case["gop"]), scale, factor, scorer, mode, case["r"], 2 if denom else 0)
        out = outs[pos]
        res["dist"] = F(out[3]) if denom else None
    elif case["fn"] == 6:
        # calign.align_pairwise: all pairs of a list of sequences; this case is the pair (0, 1) = output entry 1;
        # the secondary twins are selected by a restricted character ANYWHERE in the batch
        seqs = [sa, sb] + [list(o["seqA"]) for o in case["batch"]]
        pros = [pa, pb] + ["".join(o["proA"]) for o in case["batch"]]
        gops = [[float(w) for w in case["wA"]], [float(w) for w in case["wB"]]] + \
               [[float(w) for w in o["wA"]] for o in case["batch"]]
        outs = calign.align_pairwise(seqs, gops, pros, float(case["gop"]), scale, factor, scorer, case["r"], mode)
        out = outs[1]
        res["dist"] = F(out[3])
    elif case["fn"] == 2:
        f = getattr(talign, TFN[mode])
        if mode == "dialign":
            out = f(sa, sb, M, N, scale, scorer)
        else:
            out = f(sa, sb, M, N, float(case["gop"]), scale, scorer)
    elif case["fn"] == 7:
        # lingpy.align.pairwise.pw_align: strings, tuples or lists; own scorer when none is passed; keyword defaults
        from lingpy.align.pairwise import pw_align
        conv = {"str": "".join, "tuple": tuple, "list": list}[case.get("container", "list")]
        bl = case.get("blank")
        bc = case.get("blank_char", " ")
        if bl and len(bc) > 1 and conv == "".join:
            conv = tuple          # a multi-character token cannot be written into a str input
        to_b = lambda x: bc if x == bl else x
        from_b = lambda x: bl if x == bc else x
        unb = lambda part: [from_b(x) for x in part]
        sa, sb = [to_b(x) for x in sa], [to_b(x) for x in sb]
        kw = {"gop": float(case["gop"]), "scale": scale, "mode": mode}
        if not case.get("default_scorer"):
            kw["scorer"] = {(to_b(a), to_b(b)): v for (a, b), v in scorer.items()}
        for k in case.get("omit", ()):
            kw.pop(k)
        denom = sum(case["scorer"][x, x] for x in case["seqA"] + case["seqB"])
        out = pw_align(conv(sa), conv(sb), **kw)
        if denom:
            outd = pw_align(conv(sa), conv(sb), distance=True, **kw)
            if list(outd[:2]) != list(out[:2]):
                raise AssertionError("pw_align returns different rows with distance=True: %r / %r" % (out, outd))
            res["dist"] = F(outd[2])
        else:
            res["dist"] = None
        if bl:
            if local:
                out = (tuple(unb(p) for p in out[0]), tuple(unb(p) for p in out[1]), out[2])
            else:
                out = (unb(out[0]), unb(out[1]), out[2])
    elif case["fn"] == 8:
        denom = sum(case["scorer"][x, x] for x in sa + sb)
        for o in case["batch"]:
            if sum(case["scorer"][x, x] for x in o["seqA"] + o["seqB"]) == 0:
                denom = 0
        pairs = [(list(o["seqA"]), list(o["seqB"])) for o in case["batch"]]
        pos = case["batch_pos"]
        pairs.insert(pos, (sa, sb))
        for _ in range(2):
            outs = talign.align_pairs(pairs, float(case["gop"]), scale, scorer, mode, 2 if denom else 0)
        out = outs[pos]
        res["dist"] = F(out[3]) if denom else None
    elif case["fn"] == 9:
        # talign.align_pairwise: all pairs i <= j of a list of sequences; entry 0 is (0, 0), entry 1 the pair (0, 1)
        seqs = [sa, sb] + [list(o["seqA"]) for o in case["batch"]]
        outs = talign.align_pairwise(seqs, float(case["gop"]), scale, scorer, mode)
        out = outs[1]
        res["dist"] = F(out[3])
        n = len(seqs)
        if len(outs) != n * (n + 1) // 2 or list(outs[0][:2]) != [sa, sa] or outs[0][3] != 0.0:
            raise AssertionError("talign.align_pairwise: wrong number of entries or wrong self entry")
    else:
        denom = sum(case["scorer"][x, x] for x in sa + sb)
        out = talign.align_pair(sa, sb, float(case["gop"]), scale, scorer, mode, 2 if denom else 0)
        res["dist"] = F(out[3]) if denom else None
    res["out"] = canon_out(out, local)
    return res


def optrow(row):
    return L.lst([L.opt(x, L.z) for x in row])


def result_lit(o):
    if o["kind"] == "local":
        return "(RLocal %s %s %s %s %s %s %s)" % (
            L.zlist(o["preA"]), optrow(o["almA"]), L.zlist(o["sufA"]),
            L.zlist(o["preB"]), optrow(o["almB"]), L.zlist(o["sufB"]), L.q(o["sim"]))
    return "(RGlobal %s %s %s)" % (optrow(o["almA"]), optrow(o["almB"]), L.q(o["sim"]))


def cin_lit(case):
    fn = case["fn"]
    if fn == 4:
        fn = 1
    if fn == 6:
        fn = 0
    if fn == 0:
        gA = [case["gop"] * w for w in case["wA"]]
        gB = [case["gop"] * w for w in case["wB"]]
    else:
        gA, gB = case["wA"], case["wB"]
    sc = L.lst([L.pair(L.z(sym(a)), L.z(sym(b)), L.q(v)) for (a, b), v in sorted(case["scorer"].items())])
    return L.record("cin", [
        L.zlist([sym(x) for x in case["seqA"]]), L.zlist([sym(x) for x in case["seqB"]]),
        L.qlist(gA), L.qlist(gB),
        L.zlist([ord(c) for c in case["proA"]]), L.zlist([ord(c) for c in case["proB"]]),
        L.q(case["scale"]), L.q(case["factor"]), sc, L.zlist([ord(c) for c in case["r"]])])


def render(case, res):
    return L.record("align_case", [
        cin_lit(case), L.nat({4: 1, 6: 4, 7: 3, 8: 3, 9: 3}.get(case["fn"], case["fn"])), COQ_MODE[case["mode"]], L.b(case["sec"]),
        L.q(case["gop"]),
        result_lit(res["out"]), L.opt(res.get("dist"), L.q)])


BITS = {0: "correspondence: model output (rows and score) differs from implementation output",
        1: "C01: returned alignment is not a valid alignment of the inputs",
        2: "C02: re-scoring the returned alignment does not give the returned score",
        3: "C03: returned score is not the optimum over all alignments (scale = 1)"}


def nontrivial(case, res):
    o = res["out"]
    return (None in o["almA"] or None in o["almB"]) or case["seqA"] != case["seqB"]


def classify(case, res):
    o = res["out"]
    gaps = sum(1 for x in o["almA"] + o["almB"] if x is None)
    return ["fn=%d" % case["fn"], "mode=" + case["mode"], "sec=%s" % (case["sec"] if case["fn"] == 0 else "-"),
            "batch=%d" % len(case.get("batch", [])),
            "gaps>0" if gaps else "gaps=0",
            "restricted_present" if set(case["r"]) & set(case["proA"] + case["proB"]) else "restricted_absent",
            "lenA=%d" % len(case["seqA"]), "scale=%s" % case["scale"]]


def jsonable(case, res=None):
    c = dict(case)
    for k in ("wA", "wB"):
        c[k] = [str(x) for x in case[k]]
    c["batch"] = [dict(o, wA=[str(x) for x in o["wA"]], wB=[str(x) for x in o["wB"]]) for o in case.get("batch", [])]
    for k in ("gop", "scale", "factor"):
        c[k] = str(case[k])
    c["scorer"] = {"%s,%s" % k: str(v) for k, v in case["scorer"].items()}
    if res is not None:
        r = dict(res)
        r["out"] = {k: (str(v) if isinstance(v, F) else v) for k, v in res["out"].items()}
        for k in ("dist", "dist_expected"):
            if k in r and r[k] is not None:
                r[k] = str(r[k])
        c["impl"] = r
    return c


def from_json(c):
    case = dict(c)
    case.pop("impl", None)
    for k in ("wA", "wB"):
        case[k] = [F(x) for x in c[k]]
    case["batch"] = [dict(o, wA=[F(x) for x in o["wA"]], wB=[F(x) for x in o["wB"]]) for o in c.get("batch", [])]
    case.setdefault("batch_pos", 0)
    for k in ("gop", "scale", "factor"):
        case[k] = F(c[k])
    case["scorer"] = {tuple(k.split(",")): F(v) for k, v in c["scorer"].items()}
    return case


def shrink(case):
    if case.get("batch"):
        c = dict(case)
        c["batch"] = case["batch"][1:]
        c["batch_pos"] = min(case["batch_pos"], len(c["batch"]))
        yield c
    for key, pro, w in (("seqA", "proA", "wA"), ("seqB", "proB", "wB")):
        n = len(case[key])
        if n > 1:
            for drop in range(n):
                c = dict(case)
                for k in (key, pro, w):
                    c[k] = [x for i, x in enumerate(case[k]) if i != drop]
                yield c
    for k, v in (("factor", F(0)), ("scale", F(1)), ("gop", F(-1))):
        if case[k] != v:
            c = dict(case)
            c[k] = v
            yield c
    for key in ("wA", "wB"):
        if any(x != 1 for x in case[key]):
            c = dict(case)
            c[key] = [F(1)] * len(case[key])
            yield c
    for key in ("proA", "proB"):
        if any(x != "A" for x in case[key]):
            c = dict(case)
            c[key] = ["A"] * len(case[key])
            yield c


def model_expr(case, res, rundir):
    from ..lib import coqrun
    return coqrun.eval_expr(rundir, "replay_model", IMPORTS, "model_of %s" % render(case, res))
