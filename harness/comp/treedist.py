"""Component: tree distances (RF / GRF), Newick printing and parsing.  Used by C15.

A case = two rose trees a, b on (usually) one taxon set, re-ordered copies pa, pb
(children of every node shuffled), and the Newick texts handed to lingpy.  The
implementation side runs lingpy.basic.tree.Tree (parser, str, taxa, clades),
_TreeDist.get_bipartition and Tree.get_distance('grf' | 'rf')."""
import itertools
import random
from fractions import Fraction as F

from ..lib import coqlit as L

IMPORTS = ("From LV Require Import Common.Cases TreeDist.Newick TreeDist.Bipart TreeDist.RF TreeDist.Spec "
           "TreeDist.TreeDistExec.")

# rose trees: ("L", name, length-or-None) / ("N", [children], length-or-None); lengths are texts
LETTERS = list("abcdefghi")
NAME_POOLS = [
    LETTERS,
    ["t1", "t2", "t3", "t10", "t11", "t12", "t100", "t21", "t20"],                  # prefixes of each other
    ["a", "aa", "ab", "aab", "b", "ba", "bb", "A", "Aa"],
    ["German", "Ger", "G", "Dutch", "English", "Eng", "Danish", "Dan", "Swedish"],
    ["Lang.A", "A-1", "x+y", "root", "ledge", "1", "23", "e1", "1e5"],
    ["%x", "a*b", "A|B", "{x}", "=", "a@b", "#1", "<t>", "~"],
    ["a^b", "$v", "a&b", "a!", "a?", "a`b", "a\\b", "-a-", "."],
    # underscores: the writer puts such names in single quotes, parser and scanner take them off again
    ["Old_High_German", "a_1", "Proto_Germanic", "d", "e_", "_f", "g", "h_i_j", "Dutch"],
]
# floats whose repr() is the text itself
LENGTHS = ["0.0", "1.0", "0.25", "2.5", "1e-05", "1e+20", "100.0", "0.1", "3.14", "12.0", "-1.5", "0.5", "7.0"]
for _x in LENGTHS:
    assert repr(float(_x)) == _x, _x


# ---------------------------------------------------------------- rose trees
def leaf(n, l=None):
    return ("L", n, l)


def node(cs, l=None):
    return ("N", list(cs), l)


def leaves(t):
    return [t[1]] if t[0] == "L" else [x for c in t[1] for x in leaves(c)]


def clades(t):
    if t[0] == "L":
        return []
    return [x for c in t[1] for x in clades(c)] + [leaves(t)]


def write(t):
    ln = "" if t[2] is None else ":" + t[2]
    if t[0] == "L":
        return t[1] + ln
    return "(" + ",".join(write(c) for c in t[1]) + ")" + ln


def proper(t):
    return t[0] == "L" or (len(t[1]) >= 2 and all(proper(c) for c in t[1]))


def splits(t):
    """non-trivial bipartitions as frozensets of frozensets (harness side, for statistics only)"""
    ls = frozenset(leaves(t))
    out = set()
    for c in clades(t):
        c = frozenset(c)
        if 2 <= len(c) <= len(ls) - 2:
            out.add(frozenset([c, ls - c]))
    return out


def shuffle_tree(rng, t):
    if t[0] == "L":
        return t
    cs = [shuffle_tree(rng, c) for c in t[1]]
    rng.shuffle(cs)
    return ("N", cs, t[2])


def random_topology(rng, taxa, multi=0.25):
    taxa = list(taxa)
    if len(taxa) == 1:
        return leaf(taxa[0])
    rng.shuffle(taxa)
    n = len(taxa)
    if rng.random() < multi:
        k = rng.randint(2, n)
    else:
        k = 2
    cuts = sorted(rng.sample(range(1, n), k - 1))
    blocks = [taxa[i:j] for i, j in zip([0] + cuts, cuts + [n])]
    return node([random_topology(rng, b, multi) for b in blocks])


def add_lengths(rng, t, mode, root=True):
    """mode: none | all | allroot | some"""
    def pick():
        return rng.choice(LENGTHS)
    if mode == "none":
        ln = None
    elif mode == "all":
        ln = None if root else pick()
    elif mode == "allroot":
        ln = pick()
    else:
        ln = pick() if rng.random() < 0.5 else None
    if t[0] == "L":
        return ("L", t[1], ln)
    return ("N", [add_lengths(rng, c, mode, False) for c in t[1]], ln)


def strip_lengths(t):
    if t[0] == "L":
        return ("L", t[1], None)
    return ("N", [strip_lengths(c) for c in t[1]], None)


def write_quoted(rng, t):
    """names in single quotes (always those with an underscore, the others at random)"""
    ln = "" if t[2] is None else ":" + t[2]
    if t[0] == "L":
        q = "_" in t[1] or rng.random() < 0.5
        return ("'%s'" % t[1] if q else t[1]) + ln
    return "(" + ",".join(write_quoted(rng, c) for c in t[1]) + ")" + ln


def format_src(rng, t, fmt):
    s = write_quoted(rng, t) if fmt == "quoted" else write(t)
    if fmt in ("plain", "quoted"):
        return s + ";"
    if fmt == "nosemi":
        return s
    # white space around punctuation (never inside a label)
    out = []
    for ch in s + ";":
        if ch in "(),:;":
            pre = rng.choice(["", "", " ", "  ", "\t", "\n", " \n "])
            post = rng.choice(["", "", " ", "\n", "\t "])
            out.append(pre + ch + post)
        else:
            out.append(ch)
    return "".join(out)


def all_topologies(taxa):
    """all rooted trees with the given labelled leaves, children unordered, no unary nodes"""
    taxa = list(taxa)
    if len(taxa) == 1:
        return [leaf(taxa[0])]
    out = []
    for part in set_partitions(taxa):
        if len(part) < 2:
            continue
        for combo in itertools.product(*[all_topologies(b) for b in part]):
            out.append(node(list(combo)))
    return out


def set_partitions(s):
    if not s:
        yield []
        return
    first, rest = s[0], s[1:]
    for part in set_partitions(rest):
        yield [[first]] + part
        for i in range(len(part)):
            yield part[:i] + [[first] + part[i]] + part[i + 1:]


def all_orderings(t):
    if t[0] == "L":
        return [t]
    out = []
    for perm in itertools.permutations(t[1]):
        for combo in itertools.product(*[all_orderings(c) for c in perm]):
            out.append(("N", list(combo), t[2]))
    return out


# ---------------------------------------------------------------- case generators
def mk_case(rng, a, b, pa=None, pb=None, fmt="plain", kind="random"):
    pa = shuffle_tree(rng, a) if pa is None else pa
    pb = shuffle_tree(rng, b) if pb is None else pb
    return {"kind": kind, "fmt": fmt, "a": a, "b": b, "pa": pa, "pb": pb,
            "srcA": format_src(rng, a, fmt), "srcB": format_src(rng, b, fmt)}


def gen_case(rng, max_n=9):
    n = rng.choice([4, 4, 5, 5, 6, 6, 7, 8, 9])
    n = min(n, max_n)
    pool = rng.choice(NAME_POOLS)
    taxa = rng.sample(pool, n)
    c = rng.random()
    multi = rng.choice([0.0, 0.25, 0.5])
    a = random_topology(rng, taxa, multi)
    if c < 0.08:
        b = shuffle_tree(rng, a)                       # the same tree written differently
        kind = "same"
    elif c < 0.30:
        b = nni(rng, a)                                # a neighbour: most splits shared
        kind = "near"
    elif c < 0.36:
        b = node([leaf(x) for x in rng.sample(taxa, n)])   # star tree: no split (ZeroDivisionError when first)
        if rng.random() < 0.5:
            a, b = b, a
        kind = "star"
    elif c < 0.41:
        other = rng.sample(pool, n)                    # other taxa (same number): outside the property
        b = random_topology(rng, other, multi)
        kind = "othertaxa"
    elif c < 0.44:
        b = random_topology(rng, rng.sample(taxa, n - 1), multi)   # fewer taxa: ValueError
        kind = "fewer"
    elif c < 0.47:
        b = add_unary(rng, random_topology(rng, taxa, multi))      # a node with one child: lingpy raises ValueError
        if rng.random() < 0.5:
            a, b = b, a
        kind = "unary"
    else:
        b = random_topology(rng, taxa, multi)
        kind = "random"
    lm = rng.choice(["none", "none", "all", "allroot", "some"])
    a = add_lengths(rng, a, lm)
    b = add_lengths(rng, b, rng.choice([lm, lm, "none", "all"]))
    fmt = rng.choice(["plain", "plain", "plain", "nosemi", "spaces", "quoted"])
    return mk_case(rng, a, b, fmt=fmt, kind=kind)


def add_unary(rng, t):
    """wrap one random subtree into a node with a single child"""
    if t[0] == "L" or rng.random() < 0.3:
        return node([t])
    i = rng.randrange(len(t[1]))
    cs = list(t[1])
    cs[i] = add_unary(rng, cs[i])
    return ("N", cs, t[2])


def nni(rng, t):
    """move one random subtree somewhere else (keeps the taxon set)"""
    ls = leaves(t)
    if len(ls) < 4:
        return t
    x = rng.choice(ls)
    rest = prune(t, x)
    if rest is None:
        return t
    return graft(rng, rest, leaf(x))


def prune(t, x):
    if t[0] == "L":
        return None if t[1] == x else t
    cs = [prune(c, x) for c in t[1]]
    cs = [c for c in cs if c is not None]
    if not cs:
        return None
    if len(cs) == 1 and len(t[1]) > 1:
        return cs[0]
    return ("N", cs, t[2])


def graft(rng, t, sub):
    if t[0] == "L" or rng.random() < 0.3:
        return node([t, sub])
    i = rng.randrange(len(t[1]))
    cs = list(t[1])
    if rng.random() < 0.3:
        cs.insert(i, sub)
    else:
        cs[i] = graft(rng, cs[i], sub)
    return ("N", cs, t[2])


MIXED = ["Lang.A", "t1", "t_1", ".", "A-1", "ab"]


def exhaustive_pairs(n, rng, limit=None, stride=None, taxa=None):
    """all ordered pairs of topologies on n taxa; the re-ordered copies cycle through all child orderings"""
    taxa = list(taxa)[:n] if taxa else LETTERS[:n]
    tops = all_topologies(taxa)
    ords = [all_orderings(t) for t in tops]
    pairs = [(i, j) for i in range(len(tops)) for j in range(len(tops))]
    if stride:
        pairs = pairs[stride[0]::stride[1]]
    if limit and len(pairs) > limit:
        pairs = rng.sample(pairs, limit)
    cnt = [0] * len(tops)
    for i, j in pairs:
        pa = ords[i][cnt[i] % len(ords[i])]
        cnt[i] += 1
        pb = ords[j][cnt[j] % len(ords[j])]
        cnt[j] += 1
        yield mk_case(rng, tops[i], tops[j], pa, pb, kind="exh%d" % n)


def ordering_cases(rng, n_trees, max_n=6, cap=120):
    """for random trees on <= max_n taxa: EVERY child ordering of a (capped per tree) against a fixed b"""
    for _ in range(n_trees):
        n = rng.choice([4, 5, 5, 6, 6])
        n = min(n, max_n)
        taxa = rng.sample(rng.choice(NAME_POOLS), n)
        a = random_topology(rng, taxa, rng.choice([0.0, 0.3]))
        b = random_topology(rng, taxa, rng.choice([0.0, 0.3]))
        lm = rng.choice(["none", "all", "some"])
        a = add_lengths(rng, a, lm)
        b = add_lengths(rng, b, lm)
        ords = all_orderings(a)
        if len(ords) > cap:
            ords = rng.sample(ords, cap)
        for pa in ords:
            yield mk_case(rng, a, b, pa, None, kind="orderings")


# ---------------------------------------------------------------- implementation side
def _obs(tree):
    cl = [list(nd.getTipNames()) for nd in tree.traverse(self_before=False, self_after=True) if nd.Children]
    return str(tree), list(tree.taxa), cl


def _dist(x, y):
    out = []
    for mode in ("grf", "rf"):
        try:
            v = x.get_distance(y, mode)
            out.append(_ratio(v))
        except (ValueError, ZeroDivisionError, IndexError) as e:
            out.append(None)
    return out


def _ratio(v):
    """the returned float as the small fraction p/q whose float quotient it is (exactly), else its exact value"""
    v = float(v)
    fr = F(v).limit_denominator(64)
    if fr.numerator / fr.denominator == v:
        return fr
    return F(v)


def run_impl(case):
    from lingpy.basic.tree import Tree
    from lingpy.algorithm import TreeDist
    ta, tb = Tree(case["srcA"]), Tree(case["srcB"])
    res = {}
    for key, t in (("A", ta), ("B", tb)):
        s, taxa, cl = _obs(t)
        s2, taxa2, cl2 = _obs(Tree(s))
        res["str" + key], res["taxa" + key], res["clades" + key] = s, taxa, cl
        res["str2" + key], res["taxa2" + key], res["clades2" + key] = s2, taxa2, cl2
        try:
            parts, lang = TreeDist.get_bipartition(s.replace(";", ""))
            res["bip" + key] = [[sorted(k) for k in parts.keys()], sorted(lang)]
        except (ValueError, IndexError):
            res["bip" + key] = None
    pa, pb = Tree(write(case["pa"]) + ";"), Tree(write(case["pb"]) + ";")
    res["ab"], res["ba"] = _dist(ta, tb), _dist(tb, ta)
    res["aa"], res["bb"] = _dist(ta, ta), _dist(tb, tb)
    res["pab"] = _dist(pa, pb)
    return res


# ---------------------------------------------------------------- rendering
class _Ctx:
    """every distinct string of a case is written (and type-checked by Coq) once, bound by a let"""
    def __init__(self, enc=False):
        self.vars = {}
        self.binds = []
        self.enc = enc

    def s(self, text):
        if self.enc:
            # injective ASCII spelling of arbitrary (Unicode) names: the object-level checkers only compare
            # names and look for blanks / quote / scanner characters, all of which stay as they are
            text = "".join(c if (32 <= ord(c) < 127 and c != "\\") else "\\%06x" % ord(c) for c in text)
        if text not in self.vars:
            v = "s%d" % len(self.vars)
            self.vars[text] = v
            if all(32 <= ord(c) < 127 or c in "\t\n" for c in text):
                lit = 's2l "%s"%%string' % text.replace('"', '""')      # tab / newline stand for themselves
            else:
                lit = "codes %s" % L.lst(["%d%%nat" % ord(c) for c in text])
            self.binds.append("let %s := %s in " % (v, lit))
        return self.vars[text]

    def names(self, l):
        return L.lst([self.s(x) for x in l])

    def tree(self, t):
        if t[0] == "L":
            if t[2] is None:
                return "Lf %s" % self.s(t[1])
            return "Lfl %s %s" % (self.s(t[1]), self.s(t[2]))
        cs = L.lst([self.tree(c) for c in t[1]])
        if t[2] is None:
            return "Nd %s" % cs
        return "Ndl %s %s" % (cs, self.s(t[2]))

    def bip(self, bp):
        if bp is None:
            return "None"
        return "(Some (%s, %s))" % (L.lst([self.names(p) for p in bp[0]]), self.names(bp[1]))

    def wrap(self, body):
        return "(" + "".join(self.binds) + body + ")"


def oq(x):
    return L.opt(x, L.q)


def render(case, res):
    cx = _Ctx()
    f = ["(%s)" % cx.tree(case[k]) for k in ("a", "b", "pa", "pb")]
    f += [cx.s(case["srcA"]), cx.s(case["srcB"]), cx.s(res["strA"]), cx.s(res["strB"]),
          cx.names(res["taxaA"]), L.lst([cx.names(c) for c in res["cladesA"]]),
          cx.names(res["taxaB"]), L.lst([cx.names(c) for c in res["cladesB"]]),
          cx.s(res["str2A"]), cx.names(res["taxa2A"]), L.lst([cx.names(c) for c in res["clades2A"]]),
          cx.s(res["str2B"]), cx.names(res["taxa2B"]), L.lst([cx.names(c) for c in res["clades2B"]]),
          cx.bip(res["bipA"]), cx.bip(res["bipB"])]
    for k in ("ab", "ba", "aa", "bb", "pab"):
        f.append(L.pair(oq(res[k][0]), oq(res[k][1])))
    return cx.wrap(L.record("td_case", f))


def tree_expr(t):
    cx = _Ctx()
    body = cx.tree(t)
    return cx.wrap(body)


BITS = {0: "correspondence: model (parser, printer, get_bipartition, grf/rf) differs from the implementation",
        1: "self distance: rf or grf of a tree against itself is not 0",
        2: "child order: distances changed when children were listed in another order",
        3: "range: a distance is outside [0, 1]",
        4: "symmetry: rf(a, b) != rf(b, a)",
        5: "definition: rf is not the normalised symmetric difference of the bipartition sets",
        6: "round trip: parsing the printed tree changed the set of leaves or the set of clades"}


def nontrivial(case, res):
    """both trees have a non-trivial bipartition, same taxa, and a numeric rf came back"""
    a, b = case["a"], case["b"]
    return (set(leaves(a)) == set(leaves(b)) and len(leaves(a)) >= 4 and proper(a) and proper(b)
            and bool(splits(a)) and bool(splits(b)) and res["ab"][1] is not None)


def jsonable(case, res=None):
    c = dict(case)
    if res is not None:
        r = dict(res)
        for k in ("ab", "ba", "aa", "bb", "pab"):
            r[k] = [None if x is None else str(x) for x in res[k]]
        c["impl"] = r
    return c


def _tup(t):
    if t[0] == "L":
        return ("L", t[1], t[2])
    return ("N", [_tup(c) for c in t[1]], t[2])


def from_json(c):
    case = {k: v for k, v in c.items() if k != "impl"}
    for k in ("a", "b", "pa", "pb"):
        case[k] = _tup(case[k])
    return case


def shrink(case):
    rng = random.Random(0)
    a, b = case["a"], case["b"]
    # drop branch lengths, plain formatting
    if any(x is not None for x in _lens(a) + _lens(b)) or case["fmt"] != "plain":
        a2, b2 = strip_lengths(a), strip_lengths(b)
        yield mk_case(rng, a2, b2, strip_lengths(case["pa"]), strip_lengths(case["pb"]), kind=case["kind"])
    # remove one taxon from both trees
    ls = leaves(a)
    if len(ls) > 4 and set(ls) == set(leaves(b)):
        for x in ls:
            a2, b2, pa2, pb2 = prune(a, x), prune(b, x), prune(case["pa"], x), prune(case["pb"], x)
            if None in (a2, b2, pa2, pb2) or a2[0] == "L" or b2[0] == "L":
                continue
            yield mk_case(rng, a2, b2, pa2, pb2, fmt=case["fmt"], kind=case["kind"])
    # identical re-ordered copies
    if case["pa"] != a or case["pb"] != b:
        yield mk_case(rng, a, b, a, b, fmt=case["fmt"], kind=case["kind"])


def _lens(t):
    if t[0] == "L":
        return [t[2]]
    return [t[2]] + [x for c in t[1] for x in _lens(c)]


def classify(case, res):
    n = len(leaves(case["a"]))
    sa, sb = splits(case["a"]), splits(case["b"])
    out = ["kind=" + case["kind"], "fmt=" + case["fmt"], "n=%d" % n,
           "lengths" if any(x is not None for x in _lens(case["a"])) else "no_lengths",
           "multifurcating" if any(len(c) > 2 for c in _nodes(case["a"])) else "binary"]
    if res["ab"][1] is None:
        out.append("rf=raised")
    elif res["ab"][1] == 0:
        out.append("rf=0")
    elif res["ab"][1] == 1:
        out.append("rf=1")
    else:
        out.append("0<rf<1")
    if sa and sb and sa != sb and (sa & sb):
        out.append("partial_overlap")
    return out


def _nodes(t):
    if t[0] == "L":
        return []
    return [t[1]] + [x for c in t[1] for x in _nodes(c)]


def model_expr(case, res, rundir):
    from ..lib import coqrun
    a, b = tree_expr(case["a"]), tree_expr(case["b"])
    return coqrun.eval_expr(
        rundir, "replay_model", IMPORTS,
        "(option_map (fun p => (string_of_list_ascii (print (%s)), p)) (grf_both (print (%s)) (print (%s))), "
        "spec_rf (leaves (%s)) (%s) (%s), List.length (biparts (leaves (%s)) (%s)), List.length (biparts (leaves (%s)) (%s)))"
        % (a, a, b, a, a, b, a, a, a, b))


# =====================================================================================
# Object-level cases: Tree OBJECTS, odd-but-legal taxon names, histories on one object
# =====================================================================================
import unicodedata as _ud

ODD_POOLS = [
    # blanks: written unquoted with "_" for the blank; distances must not care
    ["San Juan", "b", "New York", "d", "e", "x y z", "Rio", "a b", "Tok Pisin"],
    ["San Juan", "San", "Juan", "Juan San", "b", "c", "d", "e", "f"],
    # names the writer quotes: underscore, brackets, quotes, and the characters the scanner cuts at
    ["a_1", "b", "Proto_Germanic", "d", "e", "Old_High_German", "g", "h_", "_i"],
    ["Miao,Hmu", "b", "c", "Yi,Nuosu", "e", "p:q", "s;t", "x(y)", "it's"],
    ["[z]", "b", 'd"q', "d", "a'b", "f", "San Juan,x", "h", "A-1"],
    ["a", "b", "c", "d", "e", "f", "g", "h", "i"],
    # non-ASCII names, decomposed (NFD) and composed (NFC) spellings; the two spellings of one word are two taxa
    [_ud.normalize("NFD", "S\u00e3o"), _ud.normalize("NFD", "Y\u00e9li"), "Bora", "Muinane",
     _ud.normalize("NFD", "\u00d1ga"), "S\u00e3o", "K\u00f6lsch", "\u65e5\u672c\u8a9e",
     "\u0395\u03bb\u03bb\u03b7\u03bd\u03b9\u03ba\u03ac"],
]
TRIGGER = set("[]'\"(),:;_")


def wname(n, unquoted_blank=False):
    """a taxon name as (legal) Newick label"""
    if any(c in TRIGGER for c in n) or (" " in n and not unquoted_blank):
        return "'" + n.replace("'", "''") + "'"
    return n


def owrite(t, unquoted_blank=False, labels=None):
    """labels: None, or a counter list [k] - every internal node, the root included, then gets a label Nk"""
    ln = "" if t[2] is None else ":" + t[2]
    if t[0] == "L":
        return wname(t[1], unquoted_blank) + ln
    body = "(" + ",".join(owrite(c, unquoted_blank, labels) for c in t[1]) + ")"
    if labels is not None:
        labels[0] += 1
        body += "N%d" % labels[0]
    return body + ln


def _internal_preorder(t, acc=None):
    acc = [] if acc is None else acc
    if t[0] == "N":
        acc.append(t)
        for c in t[1]:
            _internal_preorder(c, acc)
    return acc


def _rename(t, m):
    if t[0] == "L":
        return ("L", m.get(t[1], t[1]), t[2])
    return ("N", [_rename(c, m) for c in t[1]], t[2])


def _edit_internal(t, k, f, counter=None):
    """apply f to the k-th internal node (preorder)"""
    counter = [0] if counter is None else counter
    if t[0] == "L":
        return t
    mine = counter[0]
    counter[0] += 1
    if mine == k:
        t = f(t)
        return t
    return ("N", [_edit_internal(c, k, f, counter) for c in t[1]], t[2])


def _parent_size(t, x):
    for nd in _internal_preorder(t):
        for c in nd[1]:
            if c[0] == "L" and c[1] == x:
                return len(nd[1])
    return 0


def _remove_tip(t, x):
    if t[0] == "L":
        return t
    return ("N", [_remove_tip(c, x) for c in t[1] if not (c[0] == "L" and c[1] == x)], t[2])


def apply_op(a, b, op):
    """mirror of the in-place operation on the rose trees: returns (a', b')"""
    kind = op[0]
    if kind == "swap":
        return _rename(a, {op[1]: op[2], op[2]: op[1]}), b
    if kind == "rename":
        return _rename(a, {op[1]: op[2]}), _rename(b, {op[1]: op[2]})
    if kind == "reverse":
        return _edit_internal(a, op[1], lambda nd: ("N", list(reversed(nd[1])), nd[2])), b
    if kind == "move":
        x = op[1]
        tip = [c for nd in _internal_preorder(a) for c in nd[1] if c[0] == "L" and c[1] == x][0]
        # the target index refers to the tree BEFORE the removal (same numbering: no internal node disappears)
        a2 = _remove_tip(a, x)
        return _edit_internal(a2, op[2], lambda nd: ("N", nd[1] + [tip], nd[2])), b
    if kind == "drop":
        return _remove_tip(a, op[1]), prune(b, op[1])
    raise ValueError(op)


def gen_ops(rng, a, b, n_ops):
    ops = []
    for _ in range(n_ops):
        ls = leaves(a)
        inner = _internal_preorder(a)
        kind = rng.choice(["swap", "swap", "rename", "reverse", "move", "drop"])
        if kind == "swap":
            x, y = rng.sample(ls, 2)
            op = ["swap", x, y]
        elif kind == "rename":
            new = rng.choice(["Zz9", "new name", "n_1", "Q"])
            if new in ls:
                continue
            op = ["rename", rng.choice(ls), new]
        elif kind == "reverse":
            op = ["reverse", rng.randrange(len(inner))]
        elif kind == "move":
            cand = [x for x in ls if _parent_size(a, x) >= 3]
            if not cand:
                continue
            x = rng.choice(cand)
            # not the root: lingpy's Tree class cannot adopt a node (Tree.__init__ needs a Newick text)
            targets = [k for k, nd in enumerate(inner) if k > 0 and not any(c[0] == "L" and c[1] == x for c in nd[1])]
            if not targets:
                continue
            op = ["move", x, rng.choice(targets)]
        else:
            cand = [x for x in ls if _parent_size(a, x) >= 3 and _parent_size(b, x) >= 2]
            if not cand or len(ls) <= 5:
                continue
            op = ["drop", rng.choice(cand)]
        a2, b2 = apply_op(a, b, op)
        if b2 is None or not proper(a2) or not proper(b2) or set(leaves(a2)) != set(leaves(b2)):
            continue
        ops.append(op)
        a, b = a2, b2
    return ops, a, b


def gen_object_case(rng, history=False):
    pool = rng.choice(ODD_POOLS)
    n = rng.choice([5, 5, 6, 6, 7, 8])
    taxa = rng.sample(pool, n)
    multi = rng.choice([0.2, 0.5])
    a = random_topology(rng, taxa, multi)
    c = rng.random()
    if c < 0.15:
        b = shuffle_tree(rng, a)
    elif c < 0.45:
        b = nni(rng, a)
    else:
        b = random_topology(rng, taxa, multi)
    lm = rng.choice(["none", "all", "some"])
    a, b = add_lengths(rng, a, lm), add_lengths(rng, b, lm)
    ops = gen_ops(rng, a, b, rng.choice([1, 2, 3]))[0] if history else []
    case = {"kind": "history" if history else "objects", "a0": a, "b0": b, "ops": ops,
            "unquoted_blank": rng.random() < 0.4, "pseed": rng.randrange(10 ** 6)}
    if OBJ.inner_labels and rng.random() < 0.3:
        # named internal nodes in the text of the first (or both) trees; never names of the pools
        case["inner_labels"] = rng.choice(["first", "both"])
    return case


def expected_state(case):
    a, b = case["a0"], case["b0"]
    for op in case["ops"]:
        a, b = apply_op(a, b, op)
    prng = random.Random(case["pseed"])
    return a, b, shuffle_tree(prng, a), shuffle_tree(prng, b)


def _tip(t, name):
    for x in t.tips():
        if x.Name == name:
            return x
    raise KeyError(name)


def _apply_inplace(t, op):
    inner = [n for n in t.traverse(self_before=True, self_after=False) if n.Children]
    kind = op[0]
    if kind == "swap":
        t.reassignNames({op[1]: op[2], op[2]: op[1]})
    elif kind == "rename":
        if len(op[1]) % 2:
            t.reassignNames({op[1]: op[2]})
        else:
            _tip(t, op[1]).Name = op[2]
    elif kind == "reverse":
        inner[op[1]].Children.reverse()
    elif kind == "move":
        inner[op[2]].append(_tip(t, op[1]))
    elif kind == "drop":
        x = _tip(t, op[1])
        x.Parent.removeNode(x)
    else:
        raise ValueError(op)


def _oobs(t):
    return (list(t.getTipNames()),
            [list(nd.getTipNames()) for nd in t.traverse(self_before=False, self_after=True) if nd.Children])


class OBJ:
    IMPORTS = IMPORTS
    BITS = {1: "self distance: rf or grf of a tree object against itself is not 0",
            2: "child order: distances changed when children were listed in another order",
            3: "range: a distance is outside [0, 1]",
            4: "symmetry: rf(a, b) != rf(b, a)",
            5: "definition: rf / grf of the objects differ from the reference values of the trees they now are",
            6: "round trip: parsing the Newick text written by the object changed the leaves or the clades",
            7: "state: the object is not the tree the history should have produced"}
    lift_q = False       # set by C15.known_witnesses
    lift_s = False       # only while the witness of the scanner-character class is evaluated
    lift_b = False
    inner_labels = False  # named internal nodes are generated only when the witness 'inner-node-labels' passes

    @staticmethod
    def run_impl(case):
        from lingpy.basic.tree import Tree
        ub = case["unquoted_blank"]
        a, b = case["a0"], case["b0"]
        t1 = Tree(owrite(a, ub, [0] if case.get("inner_labels") else None) + ";")
        t2 = Tree(owrite(b, ub, [50] if case.get("inner_labels") == "both" else None) + ";")
        for op in case["ops"]:
            # use the object before every modification (anything cached now would be stale afterwards)
            str(t1), t1.getNewick(), _dist(t1, t2), _dist(t1, t1)
            _apply_inplace(t1, op)
            a, b = apply_op(a, b, op)
            t2 = Tree(owrite(b, ub) + ";")
        ea, eb, pa, pb = expected_state(case)
        res = {}
        res["tipsA"], res["cladesA"] = _oobs(t1)
        res["tipsB"], res["cladesB"] = _oobs(t2)
        rts = []
        for w in (str(t1), t1.getNewick(), t1.getNewick(with_distances=True), t1.getNewickRecursive(),
                  t1.getNewickRecursive(with_distances=True)):
            try:
                rts.append(list(_oobs(Tree(w))) + [w])
            except Exception as e:     # written text cannot be parsed
                rts.append([["<unparsable: %s>" % type(e).__name__], [], w])
        res["rts"] = rts
        p1, p2 = Tree(owrite(pa, ub) + ";"), Tree(owrite(pb, ub) + ";")
        res["ab"], res["ba"] = _dist(t1, t2), _dist(t2, t1)
        res["aa"], res["bb"] = _dist(t1, t1), _dist(t2, t2)
        res["pab"] = _dist(p1, p2)
        return res

    @staticmethod
    def render(case, res):
        cx = _Ctx(enc=True)
        ea, eb, pa, pb = expected_state(case)
        f = ["(%s)" % cx.tree(t) for t in (ea, eb, pa, pb)]
        f += [L.b(OBJ.lift_q), L.b(OBJ.lift_s), L.b(OBJ.lift_b),
              cx.names(res["tipsA"]), L.lst([cx.names(c) for c in res["cladesA"]]),
              cx.names(res["tipsB"]), L.lst([cx.names(c) for c in res["cladesB"]]),
              L.lst([L.pair(cx.names(r[0]), L.lst([cx.names(c) for c in r[1]])) for r in res["rts"]])]
        for k in ("ab", "ba", "aa", "bb", "pab"):
            f.append(L.pair(oq(res[k][0]), oq(res[k][1])))
        return cx.wrap(L.record("ob_case", f))

    @staticmethod
    def nontrivial(case, res):
        ea, eb, _, _ = expected_state(case)
        odd = any(not x.isalnum() for x in leaves(ea))
        return (odd or bool(case["ops"])) and res["ab"][1] is not None

    @staticmethod
    def jsonable(case, res=None):
        c = dict(case)
        if res is not None:
            r = dict(res)
            for k in ("ab", "ba", "aa", "bb", "pab"):
                r[k] = [None if x is None else str(x) for x in res[k]]
            c["impl"] = r
            ea, eb, pa, pb = expected_state(case)
            c["expected"] = {"a": owrite(ea) + ";", "b": owrite(eb) + ";", "a_reordered": owrite(pa) + ";",
                             "b_reordered": owrite(pb) + ";"}
        return c

    @staticmethod
    def from_json(c):
        case = {k: v for k, v in c.items() if k not in ("impl", "expected")}
        case["a0"], case["b0"] = _tup(case["a0"]), _tup(case["b0"])
        return case

    @staticmethod
    def shrink(case):
        if case["ops"]:
            for i in range(len(case["ops"])):
                c = dict(case)
                c["ops"] = case["ops"][:i] + case["ops"][i + 1:]
                try:
                    expected_state(c)
                except Exception:
                    continue
                yield c
        a, b = case["a0"], case["b0"]
        if any(x is not None for x in _lens(a) + _lens(b)):
            c = dict(case)
            c["a0"], c["b0"] = strip_lengths(a), strip_lengths(b)
            yield c
        ls = leaves(a)
        used = {x for op in case["ops"] for x in op[1:] if isinstance(x, str)}
        if len(ls) > 5:
            for x in ls:
                if x in used:
                    continue
                a2, b2 = prune(a, x), prune(b, x)
                if a2 is None or b2 is None or a2[0] == "L" or b2[0] == "L":
                    continue
                c = dict(case)
                c["a0"], c["b0"] = a2, b2
                try:
                    ea, eb, _, _ = expected_state(c)
                    if not (proper(ea) and proper(eb)):
                        continue
                except Exception:
                    continue
                yield c

    @staticmethod
    def classify(case, res):
        ea, eb, _, _ = expected_state(case)
        ls = leaves(ea)
        out = ["kind=" + case["kind"], "ops=%d" % len(case["ops"])] + ["op=" + op[0] for op in case["ops"]]
        if any(" " in x for x in ls):
            out.append("names:blank")
        if any(c in TRIGGER for x in ls for c in x):
            out.append("names:quoted")
        if any(c in "(),:;" for x in ls for c in x):
            out.append("names:scanner-chars")
        if any(ord(c) > 127 for x in ls for c in x):
            out.append("names:non-ascii")
        if case.get("inner_labels"):
            out.append("inner-labels")
        out.append("rf=raised" if res["ab"][1] is None else "rf=value")
        return out


# =====================================================================================
# Raw scanner cases: get_bipartition on arbitrary texts (correspondence of the scanner model only)
# =====================================================================================
SC_ALPHA = "ab'_ :();,-x"


def gen_scanner_case(rng):
    c = rng.random()
    if c < 0.35:
        n = rng.randint(1, 14)
        return {"text": "".join(rng.choice(SC_ALPHA) for _ in range(n))}
    pool = rng.choice(ODD_POOLS[:-1] + NAME_POOLS)      # the scanner model is 7-bit
    n = rng.choice([3, 4, 5, 6, 7])
    t = add_lengths(rng, random_topology(rng, rng.sample(pool, n), rng.choice([0.2, 0.5])),
                    rng.choice(["none", "all", "some"]))
    labels = [rng.randrange(90)] if rng.random() < 0.3 else None       # named internal nodes and root
    s = owrite(t, rng.random() < 0.5, labels) if c < 0.8 else write(t)   # quoted as the writer would / names verbatim
    if rng.random() < 0.15:                                           # damage the text a little
        i = rng.randrange(len(s))
        s = s[:i] + rng.choice(["", "(", ")", ",", " ", "'"]) + s[i + rng.choice([0, 1]):]
    return {"text": s}


class SCAN:
    IMPORTS = IMPORTS
    BITS = {0: "correspondence: the model of get_bipartition differs from the implementation on this text"}

    @staticmethod
    def run_impl(case):
        from lingpy.algorithm import TreeDist
        try:
            parts, lang = TreeDist.get_bipartition(case["text"])
            return {"out": [[sorted(k) for k in parts.keys()], sorted(lang)]}
        except (ValueError, IndexError):
            return {"out": None}

    @staticmethod
    def render(case, res):
        cx = _Ctx()
        return cx.wrap(L.record("sc_case", [cx.s(case["text"]), cx.bip(res["out"])]))

    @staticmethod
    def nontrivial(case, res):
        return res["out"] is not None and len(res["out"][0]) > 0

    @staticmethod
    def jsonable(case, res=None):
        c = dict(case)
        if res is not None:
            c["impl"] = res
        return c

    @staticmethod
    def from_json(c):
        return {"text": c["text"]}

    @staticmethod
    def shrink(case):
        s = case["text"]
        for i in range(len(s)):
            yield {"text": s[:i] + s[i + 1:]}

    @staticmethod
    def classify(case, res):
        s = case["text"]
        return ["raised" if res["out"] is None else "parts=%d" % min(len(res["out"][0]), 3),
                "quote" if "'" in s else "noquote", "blank" if " " in s else "noblank"]
