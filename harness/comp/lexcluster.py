"""Component: LexStat.cluster (cognate detection = per-concept flat clustering).
Generator of small wordlists, implementation runner (with recording of the word-distance
function), Gallina case rendering.  Used by C06 and by the cognate clause of C10."""
import functools
import random
import zlib
from fractions import Fraction as F

from ..lib import coqlit as L

IMPORTS = ("From LV Require Import Common.Cases Cluster.Flat Cluster.FlatQ "
           "Cognates.LexCluster Cognates.LexClusterExec.\nOpen Scope nat_scope.")
CASE_TYPE = "lex_case"
CODE_FN = "lex_case_code"

METHODS = ["turchin", "edit-dist", "sca", "lexstat", "stub"]
LINKAGES = ["upgma", "single", "complete"]
COQ_METH = {"upgma": "Upgma", "single": "Single", "complete": "Complete"}

LANGS = ["Lb", "la", "Lc", "ld", "E", "lB", "Ab", "Mx", "my", "Na", "ob", "Pq", "qr", "Zz"]
CONCEPTS = ["hand", "Foot", "eye", "nose", "Sun", "foot", "Eye"]
CONS = ["p", "t", "k", "b", "d", "g", "m", "n", "s", "z", "l", "r", "h", "j", "w", "tʰ", "ts", "ʃ", "ŋ", "x"]
VOWS = ["a", "e", "i", "o", "u", "aː", "ə"]
# the same sound spelt precomposed and as base letter + combining mark: DIFFERENT segments for every comparison
# the code makes (stored strings are compared; nothing normalises the cells of a dictionary source)
TWINS = [("\u00e3", "a\u0303"), ("\u00e9", "e\u0301"), ("\u00f6", "o\u0308")]
MARKS = ["\u0303", "\u0301", "\u0308"]          # segments that are only a combining mark
VOWS += [x for pair in TWINS for x in pair]
GRID = [F(k, 8) for k in range(0, 9)]
SGRID = [F(0), F(1, 32), F(1, 16), F(3, 32), F(1, 8), F(1, 4), F(3, 8), F(1, 2), F(5, 8), F(3, 4), F(7, 8), F(1)]   # stub values
SAME_CLASS = [("t", "d"), ("p", "b"), ("k", "g"), ("s", "z"), ("a", "e"), ("o", "u"), ("i", "e"), ("m", "n"), ("a", "ə")] \
    + TWINS + TWINS + [("a", "\u00e3"), ("e", "e\u0301"), ("o", "\u00f6")]
T_TURCHIN = [F(0), F(3, 10), F(1, 2), F(99, 100), F(1), F(3, 2), F(-1, 10), F(45, 100)]
T_EDIT = [F(0), F(1, 4), F(1, 3), F(1, 2), F(2, 3), F(3, 4), F(1), F(3, 10), F(45, 100), F(55, 100), F(2, 5), F(3, 5),
          F(1, 5), F(-1, 4), F(5, 4)]
T_SCA = [F(3, 10), F(45, 100), F(55, 100), F(1, 5), F(3, 5), F(4, 5), F(0), F(1), F(1, 10), F(7, 10)]


# ---------------------------------------------------------------------------
# generator

def gen_word(rng):
    n = rng.choice([1, 1, 2, 2, 3, 3, 4, 5])
    w = []
    for _ in range(n):
        w.append(rng.choice(VOWS) if rng.random() < 0.4 else rng.choice(CONS))
    return w


def gen_case(rng, methods=METHODS, max_lang=5, max_conc=5):
    nl = rng.randint(1, max_lang)
    nc = rng.randint(1, max_conc)
    if rng.random() < (0.3 if set(methods) <= {"sca", "lexstat"} else 0.08):
        nl = rng.randint(10, 12)          # language ids with two digits ("10", "11", "12")
        nc = rng.randint(1, 2)
    langs = rng.sample(LANGS, nl)
    concs = rng.sample(CONCEPTS, nc)
    pool = [gen_word(rng) for _ in range(rng.randint(1, 5))]
    cells = []
    for c in concs:
        for l in langs:
            k = rng.choice([0, 1, 1, 1, 1, 2, 2, 3] if nl < 10 else [0, 1, 1, 1, 1, 1, 1, 2])   # missing cells, synonyms
            cells += [(l, c)] * k
    if nc >= 2 and rng.random() < 0.3:
        # concepts attested by a single word (size boundary: 1 x 1 matrix), next to concepts with several words
        for c in rng.sample(concs, rng.choice([1, 1, 2]) if nc > 2 else 1):
            cells = [x for x in cells if x[1] != c] + [(rng.choice(langs), c)]
    if not cells:
        cells = [(langs[0], concs[0])]
    if len(cells) > 22:
        cells = rng.sample(cells, 22)
    rng.shuffle(cells)                                          # data order is not grouped
    if rng.random() < 0.5:
        ids = rng.sample(range(1, 400), len(cells))             # non-contiguous, unordered keys
    else:
        ids = sorted(rng.sample(range(1, 60), len(cells)))
    rows = []
    for i, (l, c) in zip(ids, cells):
        r = rng.random()
        if r < 0.45:
            w = list(rng.choice(pool))                          # duplicate words
        elif r < 0.55:
            w = list(rng.choice(pool))
            w[rng.randrange(len(w))] = rng.choice(CONS + VOWS)  # near-duplicates
        elif r < 0.7:
            w = list(rng.choice(pool))                          # near-duplicates within a sound class:
            swaps = [(k, b if x == a else a) for k, x in enumerate(w) for a, b in SAME_CLASS if x in (a, b)]
            if swaps:                                           # distance 0 or tiny for sca / lexstat
                k, y = rng.choice(swaps)
                w[k] = y
        elif r < 0.8:
            # reduplication-like relatives of a pool word (mama / ma, aba / a, anna / ana): the shorter word is both
            # a prefix and a suffix of the longer one, or the words differ by one copy of a doubled segment
            p = list(rng.choice(pool))
            k = rng.randrange(len(p))
            w = rng.choice([p + p, p + p[:1], p[-1:] + p, p + [rng.choice(CONS + VOWS)] + p, p[:k] + [p[k]] + p[k:],
                            p[:1], p[-1:], p[:k + 1] + p[k:], p + p[::-1][1:]])
            w = w[:6]
        else:
            w = gen_word(rng)
        rows.append([i, l, c, w])
    method = rng.choice(methods)
    linkage = rng.choice(LINKAGES)
    if method in ("edit-dist", "turchin", "stub") and rng.random() < 0.06:
        r = rng.choice(rows)                                    # a segment that is only a combining mark
        r[3].insert(rng.randrange(len(r[3]) + 1), rng.choice(MARKS))   # (LexStat may reject the wordlist)

    def thr():
        c = rng.random()
        if method == "turchin":
            return rng.choice(T_TURCHIN)
        if method == "edit-dist":
            return rng.choice(T_EDIT)
        if method == "stub":
            return rng.choice(GRID + [F(3, 10), F(45, 100), F(-1, 8), F(9, 8), F(1, 16), F(1, 32)])
        if c < 0.4:
            return "entry:%d" % rng.randrange(1000)             # a threshold equal to a recorded distance
        return rng.choice(T_SCA)
    t1, t2 = thr(), thr()
    int_zero = rng.random() < 0.5
    if rng.random() < 0.25:
        # a legitimate threshold of exactly 0 ("identical only"), paired with a small second threshold
        t1 = F(0)
        small = {"turchin": [F(0), F(1, 100), F(3, 10)],
                 "edit-dist": [F(0), F(1, 10), F(1, 5), F(1, 4), F(1, 3)],
                 "stub": [F(0), F(1, 50), F(1, 32), F(1, 16), F(1, 10), F(1, 8)]}
        t2 = rng.choice(small.get(method, [F(0), F(1, 50), F(1, 20), F(1, 10), "minpos:0", "minpos:0", "minpos:1"]))
    return {"method": method, "linkage": linkage, "t1": t1, "t2": t2, "rows": rows,
            "seed": rng.randrange(1 << 30), "int_zero": int_zero}


# (distance value d, thresholds close to d that mostly agree when printed with two decimals)
def _around(d):
    return [d, d + F(4, 1000), d - F(4, 1000), d + F(1, 1000), d - F(1, 1000), d - F(4, 10000), d + F(4, 10000)]


HIST_T = {"edit-dist": [F(1, 3), F(1, 4), F(1, 2), F(2, 3), F(1, 5), F(3, 4), F(2, 5)],
          "stub": [F(5, 16), F(1, 8), F(1, 16), F(3, 32), F(1, 4), F(1, 2)],
          "turchin": [F(1), F(0)],
          "sca": [F(3, 10), F(45, 100), F(1, 5), F(1, 2)]}


def gen_history(rng, methods=("edit-dist", "stub", "turchin", "sca")):
    """A call history on ONE LexStat object: 2-4 cluster() calls, each writing to one of two refs
    (override=True when the column exists already), with thresholds close to an occurring
    distance value (0.33 / 0.334 / 0.3293...: equal when rounded to two decimals) or ordinary ones.
    The column of the call's ref is observed after EACH call."""
    case = gen_case(rng, methods=list(methods), max_lang=4, max_conc=3)
    method = case["method"]
    d = rng.choice(HIST_T[method])
    ncalls = rng.choice([2, 3, 3, 4])
    calls = []
    for _ in range(ncalls):
        if rng.random() < 0.8:
            t = rng.choice(_around(d))
        else:
            t = rng.choice({"turchin": T_TURCHIN, "edit-dist": T_EDIT, "stub": GRID}.get(method, T_SCA))
        calls.append([t, rng.choice(["ha", "ha", "hb"]), rng.random() < 0.5])
    case.pop("t1"), case.pop("t2")
    case["calls"] = calls
    return case


def exhaustive_cases():
    """Small scope, exhaustively: one concept x three languages, every cell empty / one word / two
    words (synonyms) from a pool of three words, plus one fixed word of an alphabetically earlier
    concept (so that the offset k is in play); x {turchin, edit-dist} x 3 linkages x 2 threshold
    pairs.  Keys are assigned in decreasing order (data order != key order)."""
    import itertools
    pool = [["t", "a"], ["t", "a", "k"], ["d", "a"]]
    opts = [[]] + [[a] for a in range(3)] + [[a, b] for a in range(3) for b in range(3)]
    pairs = {"turchin": [(F(3, 10), F(1)), (F(0), F(99, 100))],
             "edit-dist": [(F(1, 3), F(1, 2)), (F(0), F(2, 3))]}
    for cells in itertools.product(opts, repeat=3):
        if not any(cells):
            continue
        rows = [[50, "B", "W", ["t", "a"]]]
        key = 40
        for lang, ws in zip(("A", "B", "C"), cells):
            for wi in ws:
                rows.append([key, lang, "X", list(pool[wi])])
                key -= 3
        for method in ("turchin", "edit-dist"):
            for linkage in LINKAGES:
                for t1, t2 in pairs[method]:
                    yield {"method": method, "linkage": linkage, "t1": t1, "t2": t2, "rows": rows, "seed": 0,
                           "int_zero": len(rows) % 2 == 1}


# ---------------------------------------------------------------------------
# implementation side

_setup_done = False


def _setup():
    global _setup_done
    if _setup_done:
        return
    import lingpy.util
    from tqdm import tqdm
    lingpy.util.pb = functools.partial(tqdm, leave=False, disable=True)   # no progress bars
    import logging
    from lingpy import log
    log.get_logger()                                                      # configures the logger lazily (level INFO)
    logging.getLogger("lingpy").setLevel(logging.CRITICAL)
    _setup_done = True


def lev(a, b):
    """independent Levenshtein distance (used only for the exactness certificate)"""
    prev = list(range(len(b) + 1))
    for i, x in enumerate(a, 1):
        cur = [i]
        for j, y in enumerate(b, 1):
            cur.append(min(prev[j] + 1, cur[j - 1] + 1, prev[j - 1] + (x != y)))
        prev = cur
    return prev[-1]


def stub_value(seed, a, b):
    return float(SGRID[zlib.crc32(("%d/%d/%d" % (seed, a, b)).encode()) % len(SGRID)])


def certify_upgma(fm, em, ft, et):
    """Run average-linkage flat clustering in lockstep on the float matrix [fm] (what the
    implementation sees) and the exact matrix [em] (what the model sees); True iff every
    decision (first minimum, comparison with the threshold) coincides."""
    n = len(fm)
    cl = {i: [i] for i in range(n)}
    while len(cl) > 1:
        fs, es, ix = [], [], []
        for i, va in cl.items():
            for j, vb in cl.items():
                if i != j:
                    sf = [fm[x][y] for x in va for y in vb]
                    se = [em[x][y] for x in va for y in vb]
                    fs.append(sum(sf) / len(sf))
                    es.append(sum(se) / len(se))
                    ix.append((i, j))
        fmin, emin = min(fs), min(es)
        if fs.index(fmin) != es.index(emin) or (fmin <= ft) != (emin <= et):
            return False
        # every exact comparison outcome against the threshold must coincide as well
        # (the terminal checker looks at all pairs)
        if any((f <= ft) != (e <= et) for f, e in zip(fs, es)):
            return False
        if not emin <= et:
            break
        a, b = ix[es.index(emin)]
        cl[a] += cl[b]
        del cl[b]
    return True


def run_impl(case):
    """Runs LexStat.cluster of the current /repo at the two thresholds; records what the
    word-distance function returned and what _get_matrices yielded."""
    _setup()
    from lingpy.compare.lexstat import LexStat
    from lingpy.sequence.sound_classes import tokens2class
    from lingpy.settings import rcParams
    method = case["method"]
    D = {0: ["doculect", "concept", "tokens"]}
    for i, l, c, w in case["rows"]:
        D[i] = [l, c, list(w)]
    try:
        lex = LexStat(D)
    except ValueError:
        # LexStat rejects wordlists with too many unrecognised characters: an excluded input, but only
        # for the cases into which the generator put a bare combining mark
        if any(tok in MARKS for _, _, _, w in case["rows"] for tok in w):
            return {"rejected": True, "exact": True, "oracle_ok": True, "dist_stable": True, "nconcepts": 0, "sizes": [],
                    "t": ["0", "0"], "out": [], "out2": [], "calls": [], "dist": [], "classes": {}, "vowels": []}
        raise
    scorer_failed = False
    if method == "lexstat":
        random.seed(case["seed"])
        try:
            lex.get_scorer(runs=50)
        except Exception:                       # scorer creation is not part of C06: fall back to sca distances
            scorer_failed = True
    rec = {}
    mats = []
    orig_dm = LexStat._distance_method
    orig_gm = LexStat._get_matrices
    seed = case["seed"]

    def dm(self, meth, **kw):
        f = orig_dm(self, meth, **kw)
        if method == "stub":
            def f(a, b):                                    # substituted numeric oracle (grid values)
                return stub_value(seed, a, b)

        def g(a, b):
            d = f(a, b)
            rec.setdefault("cur", {})[(int(a), int(b))] = d
            return d
        return g

    def gm(self, *a, **kw):
        for c, idx, m in orig_gm(self, *a, **kw):
            mats.append((c, [int(i) for i in idx], [list(r) for r in m]))
            yield c, idx, m

    real = "sca" if method == "stub" or scorer_failed else method
    LexStat._distance_method = dm
    LexStat._get_matrices = gm
    if "calls" in case:
        return _run_history(case, lex, real, rec, mats, LexStat, orig_dm, orig_gm)
    try:
        lex.cluster(method=real, cluster_method=case["linkage"], threshold=0.5, ref="dry")
        dist = rec.pop("cur", {})
        mats0 = list(mats)
        vals = sorted(set(dist.values()))
        ts = []
        for t in (case["t1"], case["t2"]):
            if isinstance(t, str):                              # "entry:k" / "minpos:k"
                kind, k = t.split(":")
                k = int(k)
                pos = [v for v in vals if v > 0]
                if kind == "minpos":                            # the k-th smallest positive recorded distance
                    t = F(pos[min(k, len(pos) - 1)]) if pos else F(1, 2)
                else:
                    t = F(vals[k % len(vals)]) if vals else F(1, 2)
            ts.append(t)
        ts.sort()
        outs = []
        unstable = []
        for n, t in enumerate(ts):
            del mats[:]
            # a threshold of 0 is passed as the int 0 or the float 0.0 (both are legitimate and falsy)
            tv = 0 if (t == 0 and case.get("int_zero")) else float(t)
            lex.cluster(method=real, cluster_method=case["linkage"], threshold=tv, ref="cog%d" % n)
            d2 = rec.pop("cur", {})
            if d2 != dist:              # the distance of a pair depends on the call (e.g. on the threshold)
                unstable.append([n, [[a, b, d2.get((a, b)), d] for (a, b), d in sorted(dist.items()) if d2.get((a, b)) != d][:5]])
            outs.append([(int(i), int(lex[i, "cog%d" % n])) for i, _, _, _ in case["rows"]])
    finally:
        LexStat._distance_method = orig_dm
        LexStat._get_matrices = orig_gm
    mt = _model_thresholds(method, ts)
    res = {"t": [str(t) for t in mt], "out": outs[0], "out2": outs[1], "dist_stable": not unstable, "unstable": unstable}
    res.update(_common_result(case, lex, method, scorer_failed, dist, mats0, ts, mt))
    return res


def _model_thresholds(method, ts):
    # thresholds as the model receives them: the oracle matrices are floats and are compared as
    # floats with float(t); computed distances are exact quotients compared with the decimal t
    return [F(float(t)) if method in ("sca", "lexstat") else t for t in ts]


def _common_result(case, lex, method, scorer_failed, dist, mats0, ts, mt):
    from lingpy.sequence.sound_classes import tokens2class
    from lingpy.settings import rcParams
    oracle = method in ("sca", "lexstat", "stub")
    exact = True
    if case["linkage"] == "upgma" and method in ("edit-dist", "sca", "lexstat"):
        toks = {i: w for i, _, _, w in case["rows"]}
        for c, idx, fm in mats0:
            if method == "edit-dist":
                em = [[F(0) if x == y else F(lev(toks[a], toks[b]), max(len(toks[a]), len(toks[b])))
                       for y, b in enumerate(idx)] for x, a in enumerate(idx)]
            else:
                em = [[F(v) for v in r] for r in fm]
            for t, m in zip(ts, mt):
                if not certify_upgma(fm, em, float(t), m):
                    exact = False
    res = {"exact": exact,
           "dist": [[a, b, (str(F(d)) if oracle else d)] for (a, b), d in sorted(dist.items())] if oracle else [],
           "nconcepts": len(mats0), "sizes": [len(idx) for _, idx, _ in mats0], "oracle_ok": True}
    if method == "sca" or (method == "lexstat" and scorer_failed):
        # contract of the replayed oracle: the distance cluster(method='sca') uses for a pair of words is the
        # SCA distance LexStat.align_pairs(method='sca') reports for it (a separate code path, default parameters)
        badp = []
        for (a, b), d in sorted(dist.items()):
            ref = lex.align_pairs(a, b, method="sca", distance=True, return_distance=True, pprint=False)
            if abs(ref - d) > 1e-9:
                badp.append([a, b, d, ref])
        res["oracle_ok"] = not badp
        res["oracle_bad"] = badp[:5]
    if method == "turchin":
        m = rcParams["dolgo"]
        res["classes"] = {str(i): [ord(ch) for ch in tokens2class(w, m)] for i, _, _, w in case["rows"]}
        res["vowels"] = [ord(ch) for ch in m.vowels]
    return res


def _run_history(case, lex, real, rec, mats, LexStat, orig_dm, orig_gm):
    method = case["method"]
    dist, mats0, snaps, unstable = None, None, [], []
    try:
        for t, ref, override in case["calls"]:
            del mats[:]
            tv = 0 if (t == 0 and case.get("int_zero")) else float(t)
            lex.cluster(method=real, cluster_method=case["linkage"], threshold=tv, ref=ref,
                        override=bool(override or ref in lex.header))
            d2 = rec.pop("cur", None)
            if d2 is not None:                      # (a call may compute nothing only if it was skipped)
                if dist is None:
                    dist, mats0 = d2, list(mats)
                elif d2 != dist:
                    unstable.append(len(snaps))
            snaps.append([(int(i), int(lex[i, ref])) for i, _, _, _ in case["rows"]])
    finally:
        LexStat._distance_method = orig_dm
        LexStat._get_matrices = orig_gm
    ts = [t for t, _, _ in case["calls"]]
    mt = _model_thresholds(method, ts)
    res = {"calls": [[str(m), o] for m, o in zip(mt, snaps)], "dist_stable": not unstable, "unstable": unstable}
    res.update(_common_result(case, lex, method, False, dist or {}, mats0 or [], ts, mt))
    return res


# ---------------------------------------------------------------------------
# rendering

def _ranks(case):
    langs = sorted({r[1] for r in case["rows"]}, key=lambda x: (x.lower(), x))      # wordlist.cols
    concs = sorted({r[2] for r in case["rows"]})                                    # sorted(wordlist.rows)
    return {l: i for i, l in enumerate(langs)}, {c: i for i, c in enumerate(concs)}


def render(case, res):
    lr, cr = _ranks(case)
    wl = L.lst(["(mkrow %s %s %s)" % (L.nat(i), L.nat(cr[c]), L.nat(lr[l])) for i, l, c, _ in case["rows"]])
    method = case["method"]
    if res.get("rejected"):                      # nothing was computed: an empty case
        wl, method = "[]", "stub"
    if method == "turchin":
        ws = L.lst([L.pair(L.nat(i), L.natlist(res["classes"][str(i)])) for i, _, _, _ in case["rows"]])
        dist = "(DTurchin %s %s %s)" % (L.natlist(res["vowels"]), L.nat(ord("H")), ws)
    elif method == "edit-dist":
        codes = {}
        for _, _, _, w in case["rows"]:
            for tok in w:
                codes.setdefault(tok, len(codes))
        ws = L.lst([L.pair(L.nat(i), L.natlist([codes[t] for t in w])) for i, _, _, w in case["rows"]])
        dist = "(DEdit %s)" % ws
    else:
        dist = "(DOracle %s)" % L.lst([L.pair(L.pair(L.nat(a), L.nat(b)), L.q(F(d))) for a, b, d in res["dist"]])

    def col(o):
        return L.lst([L.pair(L.nat(i), L.nat(k)) for i, k in o])
    if "calls" in case:
        return L.record("lex_hist_case", [
            COQ_METH[case["linkage"]], L.b(res["exact"]), L.b(res["oracle_ok"] and res["dist_stable"]), wl, dist,
            L.lst([L.pair(L.q(F(t)), col(o)) for t, o in res["calls"]])])
    return L.record("lex_case", [
        COQ_METH[case["linkage"]], L.q(F(res["t"][0])), L.q(F(res["t"][1])), L.b(res["exact"]),
        L.b(res["oracle_ok"] and res["dist_stable"]), wl, dist, col(res["out"]), col(res["out2"])])


def case_type(case):
    return ("lex_hist_case", "lex_hist_code") if "calls" in case else (CASE_TYPE, CODE_FN)


BITS = {0: "correspondence: the model's id column differs from the implementation's",
        1: "totality: a word has no / more than one / a non-positive cognate id",
        2: "concept-disjointness: words of different concepts share a cognate id",
        3: "per-concept partition is not an outcome of threshold clustering of the concept's distance matrix "
           "(blocks within the threshold remain, or the single/complete-linkage clause fails)",
        4: "turchin consequence: sets differ from the classes of equal first-two-consonant-class keys",
        5: "refinement (C10): two words share a cognate id at t1 but not at t2 >= t1",
        6: "distance oracle: the distance cluster(method='sca') used for a word pair is not the SCA distance "
           "align_pairs(method='sca') reports for that pair, or the distance the method computes for a pair of "
           "words differs between two calls (it depends on the threshold / the call history)"}


def nontrivial(case, res):
    """Non-trivial: some concept with >= 3 words is split into more than one but fewer than
    its number of words cognate sets at one of the thresholds."""
    if res.get("rejected"):
        return False
    conc = {i: c for i, _, c, _ in case["rows"]}
    for o in ([o for _, o in res["calls"]] if "calls" in case else (res["out"], res["out2"])):
        per = {}
        for i, k in o:
            per.setdefault(conc[i], []).append(k)
        if any(len(v) >= 3 and 1 < len(set(v)) < len(v) for v in per.values()):
            return True
    return False


def jsonable(case, res=None):
    c = dict(case)
    if "calls" in case:
        c["calls"] = [[str(t), r, o] for t, r, o in case["calls"]]
    else:
        c["t1"], c["t2"] = str(case["t1"]), str(case["t2"])
    if res is not None:
        c["impl"] = res
    return c


def from_json(c):
    case = dict(c)
    if "calls" in c:
        case["calls"] = [[F(t), r, o] for t, r, o in c["calls"]]
    for k in ("t1", "t2"):
        if k not in c:
            continue
        case[k] = c[k] if c[k].startswith(("entry:", "minpos:")) else F(c[k])
    case["rows"] = [[r[0], r[1], r[2], list(r[3])] for r in c["rows"]]
    case.pop("impl", None)
    return case


def shrink(case):
    """Candidates from coarse to fine: a single concept, without a concept / a language, halves,
    single rows, shorter words, equal thresholds."""
    rows = case["rows"]

    def with_rows(rs):
        c = dict(case)
        c["rows"] = rs
        return c
    concs = sorted({r[2] for r in rows})
    langs = sorted({r[1] for r in rows})
    if len(concs) > 1:
        for x in concs:
            yield with_rows([r for r in rows if r[2] == x])
        for x in concs:
            yield with_rows([r for r in rows if r[2] != x])
    if len(langs) > 1:
        for x in langs:
            yield with_rows([r for r in rows if r[1] != x])
    if len(rows) > 3:
        h = len(rows) // 2
        yield with_rows(rows[:h])
        yield with_rows(rows[h:])
    if len(rows) > 1:
        for k in range(len(rows)):
            yield with_rows(rows[:k] + rows[k + 1:])
    for k, r in enumerate(rows):
        if len(r[3]) > 1:
            for cut in (r[3][1:], r[3][:-1]):
                yield with_rows(rows[:k] + [[r[0], r[1], r[2], cut]] + rows[k + 1:])
    if "calls" in case:
        calls = case["calls"]
        if len(calls) > 1:
            for k in range(len(calls)):
                c = dict(case)
                c["calls"] = calls[:k] + calls[k + 1:]
                yield c
    elif case["t2"] != case["t1"]:
        c = dict(case)
        c["t2"] = case["t1"]
        yield c


def classify(case, res):
    n = len(case["rows"])
    if res.get("rejected"):
        return ["method=" + case["method"], "rejected-by-LexStat(bare combining mark)"]
    out = ["method=" + case["method"], "linkage=" + case["linkage"],
           "rows<=5" if n <= 5 else "rows<=12" if n <= 12 else "rows>12",
           "concepts=%d" % res["nconcepts"],
           "exact" if res["exact"] else "upgma-not-certified"]
    if "calls" in case:
        out.append("calls=%d" % len(case["calls"]))
        stamps = ["%s/%.2f" % (r, float(t)) for t, r, _ in case["calls"]]
        if any(a == b and case["calls"][k][0] != case["calls"][k + 1][0]
               for k, (a, b) in enumerate(zip(stamps, stamps[1:]))):
            out.append("same-ref-same-2-decimals-different-threshold")
    elif F(res["t"][0]) == 0:
        out.append("t1=0(int)" if case.get("int_zero") else "t1=0.0")
    if len({l for _, l, _, _ in case["rows"]}) >= 10:
        out.append("languages>=10")
    toks = {tok for _, _, _, w in case["rows"] for tok in w}
    if any(a in toks and b in toks for a, b in TWINS):
        out.append("has-normalisation-twins")
    if any(m in toks for m in MARKS):
        out.append("has-bare-combining-mark")
    if not res.get("oracle_ok", True):
        out.append("oracle-contract-violated")
    if any(s >= 2 for s in res["sizes"]):
        out.append("has-multiword-concept")
    if any(s == 1 for s in res["sizes"]) and any(s >= 3 for s in res["sizes"]):
        out.append("has-one-word-concept-beside-large-concept")
    cells = {}
    for i, l, c, w in case["rows"]:
        cells.setdefault((l, c), []).append(tuple(w))
    if any(len(v) > 1 for v in cells.values()):
        out.append("has-synonyms")
    if len({tuple(w) for _, _, _, w in case["rows"]}) < n:
        out.append("has-duplicate-words")
    if len(cells) < len({l for _, l, _, _ in case["rows"]}) * len({c for _, _, c, _ in case["rows"]}):
        out.append("has-missing-cells")
    return out


def model_expr(case, res, rundir):
    return None
