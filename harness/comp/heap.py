"""Component: ownership of wordlist data (C19).

Two case families, both evaluated inside Coq against Wordlist/Heap*.v:

HIST  - a seeded history of constructions (dictionary -> wordlist-family object,
        wordlist -> wordlist), add_entries / __setitem__ calls, analyses
        (LexStat construction + cluster, Alignments construction + align,
        renumber) and the caller's own list operations on a source dictionary.
        After every step all objects are observed: header names, columns, rows
        (cells interned by deep value) and the identity (id()) of the header
        objects and of every row list.
PURE  - a clustering / tree function called twice on the same matrix object;
        matrix content before / after each call and both results.
"""
import copy
import json
import os
import random
import sys
import types
from fractions import Fraction as F

from ..lib import coqlit as L

IMPORTS = ("From LV Require Import Common.Cases Cluster.Flat Cluster.FlatQ Wordlist.Heap Wordlist.HeapMat "
           "Wordlist.HeapExec.")

BITS = {0: "correspondence: the heap model's prediction differs from what the implementation did "
           "(contents, raised flag, or which header/row objects are shared)",
        1: "separation: two objects share a header object or a row list",
        2: "frame: a step changed an object other than the one it was applied to, or a caller-owned argument "
           "(a dictionary's header list / row list objects, keys or meta entries; the source dictionary or value "
           "handed to the call)",
        3: "purity: the matrix (or taxa list) passed to a clustering/tree function was modified",
        4: "idempotence: the second call with the same arguments gave a different answer"}

DOCULECTS = ["A", "B", "C", "D"]
CONCEPTS = ["hand", "foot", "eye", "sun"]
CONS = list("ptkmnslrh")
VOW = list("aeiou")
FREE = ["xa", "xb", "xc", "xd", "xe", "xf"]
# column names / values that are not in composed (NFC) form, as file systems and NFD pipelines produce them
ODD_NAMES = ["franc\u0327ais", "e\u0301tymon", "glosa\u0303", "a\u030angstrom"]
ODD_STRINGS = ["ma\u0303o", "pie\u0301", "u\u0308ber"]
STRUCT = ["doculect", "concept", "ipa", "tokens", "cogid"]
LEX_COLS = ["sonars", "prostrings", "classes", "langid", "numbers", "weights", "duplicates"]
REQ = {"QLCParser": [], "Wordlist": ["doculect", "concept"],
       "LexStat": ["doculect", "concept", "tokens"],
       "Alignments": ["doculect", "concept", "tokens", "cogid"]}
META_KEYS = ["filename", "note", "json", "taxa_info"]
META_VALS = {"filename": ["mydata", "lingpy-data", "x"], "note": ["a note", ["x", "y"]],
             "json": [{"a": 1, "b": [1, 2]}, {}], "taxa_info": [{"A": "lang a"}, ["A", "B"]]}
SENTINEL = "(OCons 4999%nat [])"      # a model operation that raises and changes nothing


# ----------------------------------------------------------------------
# interning of Python values (deep value -> small integer)

class Intern:
    def __init__(self):
        self.codes = {}

    @staticmethod
    def canon(v):
        import numpy as np
        if isinstance(v, (bool, np.bool_)):
            return ("b", bool(v))
        if isinstance(v, (int, np.integer)):
            return ("i", int(v))
        if isinstance(v, (float, np.floating)):
            return ("f", repr(float(v)))
        if isinstance(v, str):
            return ("s", str(v))
        if isinstance(v, (list, tuple)):
            return ("l", tuple(Intern.canon(x) for x in v))
        if v is None:
            return ("n",)
        if isinstance(v, dict):
            return ("d", tuple(sorted((repr(k), Intern.canon(x)) for k, x in v.items())))
        return ("o", type(v).__name__, repr(v))

    def code(self, v):
        k = self.canon(v)
        if k not in self.codes:
            self.codes[k] = len(self.codes) + 1
        return self.codes[k]


# ----------------------------------------------------------------------
# generator of histories

def rand_tokens(rng):
    n = rng.choice([2, 3, 3, 4])
    out = []
    for i in range(n):
        out.append(rng.choice(CONS if i % 2 == 0 else VOW))
    return out


def rand_free_value(rng):
    c = rng.random()
    if c < 0.45:
        return rng.randint(0, 5)
    if c < 0.75:
        return rng.choice(["u", "v", "w", ""] + ODD_STRINGS)
    return rng.choice([["p", "a"], ["u"], [], ["k", "o", "s"]])


def value_for(rng, col):
    col = col.strip()
    if col == "doculect":
        return rng.choice(DOCULECTS)
    if col == "concept":
        return rng.choice(CONCEPTS)
    if col == "tokens":
        return rand_tokens(rng)
    if col == "ipa":
        return "".join(rand_tokens(rng))
    if col == "cogid":
        return rng.randint(1, 4)
    return rand_free_value(rng)


def is_free(c):
    return c.strip() in FREE or c.strip() in ODD_NAMES


def gen_dict(rng, bare=False):
    if bare:
        hdr = rng.sample(FREE, rng.choice([1, 2, 3]))
    else:
        hdr = list(STRUCT)
        if rng.random() < 0.5:
            rng.shuffle(hdr)
        hdr += rng.sample(FREE, rng.choice([0, 0, 1, 2]))
    if rng.random() < 0.15:
        hdr.insert(rng.randrange(len(hdr) + 1), rng.choice(ODD_NAMES))
    with_alm = (not bare) and rng.random() < 0.2      # stored alignments (list cells) in the source
    n = rng.choice([2, 3, 3, 4, 4, 5, 6])
    ids = rng.sample(range(1, 13), n)
    if rng.random() < 0.5:
        ids.sort()
    rows = []
    pairs = [(d, c) for c in CONCEPTS[:3] for d in DOCULECTS[:3]]
    rng.shuffle(pairs)
    for k, i in enumerate(ids):
        d, c = pairs[k % len(pairs)]
        toks = rand_tokens(rng)
        cells = []
        for name in hdr:
            if name == "doculect":
                cells.append(d)
            elif name == "concept":
                cells.append(c)
            elif name == "tokens":
                cells.append(toks)
            elif name == "ipa":
                cells.append("".join(toks))
            elif name == "cogid" and with_alm:
                cells.append(rng.choice([1, 1, 2]))
            else:
                cells.append(value_for(rng, name))
        rows.append([i, cells])
    if with_alm:
        # an ALIGNMENT column: per cognate set rows of equal length, often with a column that
        # consists of gaps only (what is left when a word was taken out of the set)
        ti, ci = hdr.index("tokens"), hdr.index("cogid")
        groups = {}
        for _, cells in rows:
            groups.setdefault(cells[ci], []).append(cells)
        for cells_list in groups.values():
            width = max(len(c[ti]) for c in cells_list)
            gap_at = rng.randrange(width + 1) if len(cells_list) > 1 and rng.random() < 0.75 else None
            for c in cells_list:
                alm = list(c[ti]) + ["-"] * (width - len(c[ti]))
                if gap_at is not None:
                    alm.insert(gap_at, "-")
                c.append(alm)
        hdr = hdr + ["alignment"]
    if rng.random() < 0.15:
        # column names as they come from splitting a line by hand: stray blanks, a line break
        cand = [k for k, nm in enumerate(hdr) if nm not in ("doculect", "concept", "tokens") or rng.random() < 0.15]
        for k in rng.sample(cand, min(len(cand), rng.choice([1, 1, 2]))):
            hdr[k] = rng.choice([" %s", "%s\n", "%s ", "\t%s"]) % hdr[k]
    st = {"op": "newdict", "hdr": hdr, "rows": rows}
    if rng.random() < 0.12:
        st["strkeys"] = True          # row ids as numeric strings ('1', '2'): accepted by the constructor
    # meta entries (string keys) of the caller's dictionary; 'filename' is the one the
    # constructor looks at.  "front" = inserted before the header key
    if rng.random() < 0.45:
        meta = []
        for key in rng.sample(META_KEYS, rng.choice([1, 1, 2, 3])):
            meta.append([key, copy.deepcopy(rng.choice(META_VALS[key]))])
        st["meta"] = meta
        st["meta_front"] = rng.random() < 0.4
    return st


FN_SINGLE = ["const", "first", "wrap", "str", "len", "failon"]
FN_MULTI = ["join", "first", "const", "failon"]


def gen_fn(rng, multi, sample_vals):
    name = rng.choice(FN_MULTI if multi else FN_SINGLE)
    fn = {"name": name}
    if name == "const":
        fn["val"] = rand_free_value(rng)
    if name == "failon":
        fn["val"] = rng.choice(sample_vals) if sample_vals and rng.random() < 0.8 else rand_free_value(rng)
        fn["then"] = rng.choice(["const", "str", "first"])
        fn["cval"] = rand_free_value(rng)
    return fn


def gen_case(rng, max_steps=12):
    """A history.  A light shadow of headers / row ids keeps most operations valid;
    invalid ones (missing ids, unknown columns, short rows) are legal inputs too -
    the model covers the raising branches."""
    steps = [gen_dict(rng, bare=rng.random() < 0.08)]
    d0 = steps[0]
    shadow = [{"kind": "dict", "cls": "dict", "hdr": list(d0["hdr"]), "ids": [r[0] for r in d0["rows"]],
               "vals": [c for r in d0["rows"] for c in r[1]], "ok": True, "strkeys": bool(d0.get("strkeys"))}]
    nsteps = rng.randint(4, max_steps)
    # a construction early on, so that there is something to share
    plan = ["cons"] + [None] * (nsteps - 1)
    for want in plan:
        live = [k for k, o in enumerate(shadow) if o["ok"]]
        wls = [k for k in live if shadow[k]["kind"] == "wl"]
        dcs = [k for k in live if shadow[k]["kind"] == "dict"]
        kind = want or rng.choices(
            ["cons", "add", "set", "dictop", "cluster", "align", "renumber", "newdict", "calculate"],
            weights=[22, 26 if wls else 0, 18 if wls else 0, 14 if dcs else 0,
                     8 if any(shadow[k]["cls"] == "LexStat" for k in wls) else 0,
                     5 if any(shadow[k]["cls"] == "Alignments" for k in wls) else 0,
                     4 if wls else 0, 3,
                     4 if any(shadow[k]["cls"] != "QLCParser" for k in wls) else 0])[0]
        if kind == "newdict":
            st = gen_dict(rng, bare=rng.random() < 0.1)
            steps.append(st)
            shadow.append({"kind": "dict", "cls": "dict", "hdr": list(st["hdr"]), "ids": [r[0] for r in st["rows"]],
                           "vals": [c for r in st["rows"] for c in r[1]], "ok": True,
                           "strkeys": bool(st.get("strkeys"))})
        elif kind == "cons":
            # (an object built from a dictionary with numeric-string keys keeps the caller's rows in
            # _meta and a copy of IT is built from those: the model's eff_rows covers that)
            src = rng.choice(live[-3:]) if rng.random() < 0.8 else rng.choice(live)
            so = shadow[src]
            cls = rng.choices(["QLCParser", "Wordlist", "LexStat", "Alignments"], weights=[15, 45, 25, 15])[0]
            if so["cls"] == "LexStat" and cls == "Alignments" or rng.random() < 0.02:
                pass
            st = {"op": "cons", "src": src, "cls": cls}
            if cls == "Alignments":
                st["ref"] = "cogid"
            steps.append(st)
            ok = all(r in so["hdr"] for r in REQ[cls]) and so.get("consistent", True)
            hdr = list(so["hdr"])
            if cls == "LexStat":
                hdr += [c for c in LEX_COLS if c not in hdr]
            if cls == "Alignments" and "alignment" not in hdr:
                hdr += ["alignment"]
            shadow.append({"kind": "wl", "cls": cls, "hdr": hdr, "ids": list(so["ids"]), "vals": list(so["vals"]),
                           "ok": ok, "strkeys": bool(so.get("strkeys"))})
        elif kind == "add":
            tgt = rng.choice(wls[-3:]) if rng.random() < 0.75 else rng.choice(wls)
            o = shadow[tgt]
            free_present = [c for c in o["hdr"] if is_free(c)]
            c = rng.random()
            if c < 0.6 or not free_present:
                cand = [x for x in FREE if x not in o["hdr"]] or FREE
                entry, override, answer = rng.choice(cand), rng.random() < 0.2, rng.random() < 0.5
            elif c < 0.85:
                entry, override, answer = rng.choice(free_present), True, False
            else:
                entry, override, answer = rng.choice(free_present), False, rng.random() < 0.5
            c = rng.random()
            if c < 0.55:
                source = {"cols": [rng.choice(o["hdr"])]}
            elif c < 0.63:
                source = {"cols": [rng.choice([x for x in FREE + ["zz"] if x not in o["hdr"]] or ["zz"])]}
            elif c < 0.68:
                source = {"cols": [entry]}                 # the column being added
            elif c < 0.83:
                source = {"cols": [rng.choice(o["hdr"]), rng.choice(o["hdr"])]}
            else:
                ids = list(o["ids"])
                if rng.random() < 0.2 and ids:
                    ids.remove(rng.choice(ids))            # a key is missing: KeyError half-way
                source = {"dict": [[i, rand_free_value(rng)] for i in ids]}
            multi = "cols" in source and len(source["cols"]) > 1
            fn = gen_fn(rng, multi, o["vals"] if "cols" in source else [v for _, v in source["dict"]])
            steps.append({"op": "add", "tgt": tgt, "entry": entry, "source": source, "fn": fn,
                          "override": override, "answer": answer})
            if entry not in o["hdr"]:
                o["hdr"].append(entry)
        elif kind == "set":
            tgt = rng.choice(wls[-3:]) if rng.random() < 0.75 else rng.choice(wls)
            o = shadow[tgt]
            i = rng.choice(o["ids"]) if o["ids"] and rng.random() < 0.87 else rng.randint(13, 15)
            ok_cols = [c for c in o["hdr"] if is_free(c) or c.strip() in ("ipa", "tokens", "cogid") or
                       (c.strip() in ("doculect", "concept") and o["cls"] in ("QLCParser", "Wordlist"))]
            col = rng.choice(ok_cols) if ok_cols and rng.random() < 0.88 else rng.choice(["zz", "xq"])
            steps.append({"op": "set", "tgt": tgt, "id": i, "col": col, "val": value_for(rng, col)})
        elif kind == "dictop":
            tgt = rng.choice(dcs)
            o = shadow[tgt]
            c = rng.random()
            if c < 0.55:
                i = rng.choice(o["ids"]) if o["ids"] and rng.random() < 0.9 else 14
                j = rng.randrange(len(o["hdr"])) if rng.random() < 0.88 else len(o["hdr"]) + 1
                col = o["hdr"][j] if j < len(o["hdr"]) else "xq"
                steps.append({"op": "dset", "tgt": tgt, "id": i, "idx": j, "val": value_for(rng, col)})
            elif c < 0.92:
                # the caller adds a column: header first, then every row (one step each)
                name = rng.choice([x for x in FREE if x not in o["hdr"]] or ["xq"])
                if name in o["hdr"]:
                    continue
                steps.append({"op": "dhdr", "tgt": tgt, "name": name})
                o["hdr"].append(name)
                ids = list(o["ids"])
                if rng.random() < 0.12 and ids:
                    ids = ids[:-1]                          # ... and forgets the last row
                    o["consistent"] = False
                for i in ids:
                    steps.append({"op": "dapp", "tgt": tgt, "id": i, "val": rand_free_value(rng)})
            else:
                i = rng.choice(o["ids"]) if o["ids"] else 14
                steps.append({"op": "dapp", "tgt": tgt, "id": i, "val": rand_free_value(rng)})
                o["consistent"] = False
        elif kind == "cluster":
            tgt = rng.choice([k for k in wls if shadow[k]["cls"] == "LexStat"])
            meth = rng.choice(["turchin", "edit-dist", "turchin", "sca"])
            ref = rng.choice(["", "", "cogid", "xa"])
            steps.append({"op": "cluster", "tgt": tgt, "method": meth, "ref": ref,
                          "threshold": rng.choice([0.3, 0.5, 0.75]), "override": rng.random() < 0.5})
            name = ref or (meth + "id" if meth in ("turchin", "sca") else "editid")
            if name not in shadow[tgt]["hdr"]:
                shadow[tgt]["hdr"].append(name)
        elif kind == "align":
            tgt = rng.choice([k for k in wls if shadow[k]["cls"] == "Alignments"])
            steps.append({"op": "align", "tgt": tgt, "method": rng.choice(["progressive", "library"]),
                          "iteration": rng.random() < 0.4, "swap_check": rng.random() < 0.3})
        elif kind == "calculate":
            tgt = rng.choice([k for k in wls if shadow[k]["cls"] != "QLCParser"])
            steps.append({"op": "calculate", "tgt": tgt, "data": rng.choice(["tree", "groups", "dst", "groups"]),
                          "cluster_method": rng.choice(["upgma", "single", "complete", "ward", "mcl"]),
                          "tree_calc": rng.choice(["upgma", "neighbor"]), "threshold": rng.choice([0.3, 0.5, 0.75])})
        elif kind == "renumber":
            tgt = rng.choice(wls)
            o = shadow[tgt]
            src = rng.choice([c for c in o["hdr"] if c.strip() in ("concept", "doculect", "cogid", "ipa") or is_free(c)]
                             or ["zz"])
            steps.append({"op": "renumber", "tgt": tgt, "source": src, "override": rng.random() < 0.5})
            if src + "id" not in o["hdr"]:
                o["hdr"].append(src + "id")
    return {"steps": steps}


# ----------------------------------------------------------------------
# running a history on the implementation

def _pyfun(fn, rec, intern, multi):
    """The user function handed to add_entries.  rec collects (args -> result) pairs
    for the model's table."""
    def g(args):
        name = fn["name"]
        if name == "failon":
            if Intern.canon(args[0]) == Intern.canon(fn["val"]):
                raise RuntimeError("user function fails on this value")
            name = fn["then"]
            if name == "const":
                return copy.deepcopy(fn["cval"])
        if name == "const":
            return copy.deepcopy(fn["val"])
        if name == "first":
            return args[0]
        if name == "wrap":
            return [args[0]]
        if name == "str":
            return str(args[0])
        if name == "len":
            return len(args[0]) if hasattr(args[0], "__len__") else 0
        if name == "join":
            return "/".join(str(a) for a in args)
        raise AssertionError(name)

    def record(args):
        key = tuple(intern.code(a) for a in args)
        res = g(args)
        rec[key] = intern.code(res)
        return res

    if multi:
        return lambda row, idxs: record([row[i] for i in idxs])
    return lambda x, **kw: record([x])


def _is_rowkey(k):
    return (isinstance(k, int) and not isinstance(k, bool)) or (isinstance(k, str) and k.isnumeric())


def _dkey(d, i):
    """The key under which dictionary d holds row id i."""
    return i if i in d or str(i) not in d else str(i)


def _hdr_group(o):
    if isinstance(o, dict):
        return [id(o[0])]
    names = ["header", "_header", "columns", "_alias", "_alias2", "_class", "_class_string", "entries"]
    return [id(getattr(o, n)) for n in names if hasattr(o, n)]


def _rows_of(o):
    if isinstance(o, dict):
        return [(int(k), v) for k, v in o.items() if k != 0 and _is_rowkey(k)]
    return list(o._data.items())


def _hdr_names(o):
    if isinstance(o, dict):
        return list(o[0]), list(o[0])
    items = sorted(o.header.items(), key=lambda x: x[1])
    names = [a for a, _ in items]
    if [b for _, b in items] != list(range(len(items))):
        names = names + ["<header indices not 0..n-1: %r>" % (items,)]
    return names, list(o.columns)


def observe(objs, intern):
    """Snapshot of all objects: contents + which header objects / row lists are the
    same Python object (first-occurrence numbering over header, rows of object 0,
    header, rows of object 1, ...)."""
    rep = {}
    seq = []
    per = []
    for o in objs:
        grp = _hdr_group(o)
        r = next((rep[g] for g in grp if g in rep), grp[0])
        for g in grp:
            rep.setdefault(g, r)
        rows = _rows_of(o)
        per.append((r, rows))
        seq.append(r)
        seq.extend(id(v) for _, v in rows)
    first = {}
    for i, x in enumerate(seq):
        first.setdefault(x, i)
    snap = []
    for o, (r, rows) in zip(objs, per):
        hdr, cols = _hdr_names(o)
        if isinstance(o, dict):
            strkeys, stale = any(isinstance(k, str) and _is_rowkey(k) for k in o), []
        else:
            # _meta entries under numeric string keys: which row list (of which object) they are
            strkeys = False
            stale = [[int(k), first.get(id(v), 4999)] for k, v in o._meta.items()
                     if isinstance(k, str) and k.isnumeric()]
        snap.append({"dict": isinstance(o, dict), "hloc": first[r],
                     "hdr": [intern.code(n) for n in hdr], "cols": [intern.code(n) for n in cols],
                     "rows": [[int(k), first[id(v)], [intern.code(c) for c in v]] for k, v in rows],
                     "strkeys": strkeys, "stale": stale})
    return snap


def nested_sharing(objs):
    """How many nested list cells are the same Python object in two different objects
    (reported as coverage information; cells are modelled as immutable values)."""
    seen = {}
    shared = 0
    for k, o in enumerate(objs):
        for _, row in _rows_of(o):
            for c in row:
                if isinstance(c, list):
                    if id(c) in seen and seen[id(c)] != k:
                        shared += 1
                    seen.setdefault(id(c), k)
    return shared


def meta_sharing(objs):
    n = 0
    seen = {}
    for k, o in enumerate(objs):
        if isinstance(o, dict):
            vals = [v for kk, v in o.items() if not isinstance(kk, int)]
        else:
            vals = list(o._meta.values())
        for v in vals:
            if isinstance(v, (list, dict)):
                if id(v) in seen and seen[id(v)] != k:
                    n += 1
                seen.setdefault(id(v), k)
    return n


def _view(snap_obj):
    return snap_obj["hdr"], [(r[0], r[2]) for r in snap_obj["rows"]]


def _eff_view(snap, k):
    """What a construction from object k reads (the model's eff_view_obj): rows whose id has a
    _meta reference under the numeric-string key are read through that reference."""
    by_loc = {r[1]: r[2] for o in snap for r in o["rows"]}
    stale = dict((i, l) for i, l in snap[k]["stale"])
    return snap[k]["hdr"], [(r[0], by_loc.get(stale[r[0]], []) if r[0] in stale else r[2]) for r in snap[k]["rows"]]


def _cons_ok(snap, k, req_codes):
    hdr, rows = _eff_view(snap, k)
    return (len(set(hdr)) == len(hdr) and all(len(c) == len(hdr) for _, c in rows)
            and all(c in hdr for c in req_codes))


def _diff_ops(tgt, old, new):
    """Model operations on object tgt that turn content `old` (hdr, rows) into `new`;
    None if that is not possible with cell assignments and (possibly partial: a
    prefix of the rows, as left behind by an add_entries that raised) column additions."""
    ohdr, orows = old
    nhdr, nrows = new
    if nhdr[:len(ohdr)] != ohdr or [i for i, _ in orows] != [i for i, _ in nrows]:
        return None
    if len(set(nhdr)) != len(nhdr):
        return None
    ops = []
    extra = len(nhdr) - len(ohdr)
    for (i, oc), (_, nc) in zip(orows, nrows):
        if len(nc) < len(oc) or len(nc) - len(oc) > extra:
            return None
        for j, (a, b) in enumerate(zip(oc, nc)):
            if a != b:
                if j >= len(ohdr):
                    return None
                ops.append("(OSet %s %s %s %s)" % (L.nat(tgt), L.z(i), L.z(ohdr[j]), L.z(b)))
    for k in range(extra):
        have = [len(nc) - len(oc) > k for (_, oc), (_, nc) in zip(orows, nrows)]
        if any(b and not a for a, b in zip(have, have[1:])):
            return None                      # not a prefix of the rows
        vals = L.lst([L.pair(L.z(i), L.z(nc[len(oc) + k]))
                      for (i, oc), (_, nc), h in zip(orows, nrows, have) if h])
        ops.append("(OAdd %s %s (SDict %s) idf false false)" % (L.nat(tgt), L.z(nhdr[len(ohdr) + k]), vals))
        if not all(have):
            break                            # this one raises in the model too; nothing can follow
    return ops


class _Quiet:
    """Silence fd 2 (progress bars, log lines) while lingpy runs."""
    def __enter__(self):
        sys.stderr.flush()
        self.saved = os.dup(2)
        self.null = os.open(os.devnull, os.O_WRONLY)
        os.dup2(self.null, 2)

    def __exit__(self, *a):
        sys.stderr.flush()
        os.dup2(self.saved, 2)
        os.close(self.null)
        os.close(self.saved)


def run_hist(case):
    import lingpy
    from lingpy.basic import parser as lparser
    from lingpy.basic.parser import QLCParser
    from lingpy import Wordlist, LexStat, Alignments
    classes = {"QLCParser": lambda d: QLCParser(d), "Wordlist": Wordlist, "LexStat": LexStat}
    intern = Intern()
    objs = []
    out_steps = []
    info = {"nested_shared": 0, "meta_shared": 0, "raised": 0, "analysis_raised": 0, "unexplained": 0}
    saved_confirm = lparser.confirm
    prev = []
    owned = {}          # object index of a dictionary -> (key list, list objects, deep copy of the meta entries)

    def dicts_intact():
        """None, or what happened to a caller's dictionary behind the caller's back."""
        for k, (keys, lists, meta) in owned.items():
            d = objs[k]
            if list(d.keys()) != keys:
                return "dictionary (object %d): keys changed from %r to %r" % (k, keys, list(d.keys()))
            for key in keys:
                if _is_rowkey(key):
                    if d[key] is not lists[key]:
                        return ("dictionary (object %d): the list under key %r was replaced by another object "
                                "(was %r, is %r)" % (k, key, lists[key], d[key]))
                elif Intern.canon(d[key]) != meta[key]:
                    return "dictionary (object %d): meta entry %r changed to %r" % (k, key, d[key])
        return None
    try:
        with _Quiet():
            for st in case["steps"]:
                op = st["op"]
                raised = False
                err = ""
                mops = None
                args = []           # (argument object, canonical deep value before the call)
                tgt = st.get("tgt")
                if op == "newdict":
                    d = {}
                    meta = st.get("meta", [])
                    if st.get("meta_front"):
                        for k, v in meta:
                            d[k] = copy.deepcopy(v)
                    d[0] = list(st["hdr"])
                    for i, cells in st["rows"]:
                        d[str(i) if st.get("strkeys") else int(i)] = copy.deepcopy(cells)
                    for k, v in meta:
                        d.setdefault(k, copy.deepcopy(v))
                    objs.append(d)
                    owned[len(objs) - 1] = (list(d.keys()), {k: v for k, v in d.items() if _is_rowkey(k)},
                                            {k: Intern.canon(v) for k, v in d.items() if not _is_rowkey(k)})
                    mops = ["(ONewDict %s %s %s)" % (
                        L.zlist([intern.code(n) for n in st["hdr"]]),
                        L.lst([L.pair(L.z(i), L.zlist([intern.code(c) for c in cells])) for i, cells in st["rows"]]),
                        L.b(bool(st.get("strkeys"))))]
                    tgt = None
                elif op == "cons":
                    src, cls = st["src"], st["cls"]
                    reqn = list(REQ[cls])
                    if cls in ("LexStat", "Alignments") and src < len(objs):
                        # segments may be derived from another column: one of them has to be there
                        have = _hdr_names(objs[src])[0]
                        alt = ["tokens", "ipa"] + (["alignment"] if cls == "Alignments" else [])
                        reqn = [n for n in reqn if n != "tokens"] + [next((a for a in alt if a in have), "tokens")]
                    req = [intern.code(n) for n in reqn]
                    base = "(OCons %s %s)" % (L.nat(src), L.zlist(req))
                    tgt = None
                    new = None
                    try:
                        if src >= len(objs):
                            raise IndexError("no such object")
                        if cls == "Alignments":
                            new = Alignments(objs[src], ref=st.get("ref", "cogid"))
                        else:
                            new = classes[cls](objs[src])
                    except Exception as e:          # noqa
                        raised, err = True, "%s: %s" % (type(e).__name__, e)
                    if new is not None:
                        objs.append(new)
                        snap = observe(objs, intern)
                        d = []
                        if cls in ("LexStat", "Alignments"):     # what the analysis did to its own object
                            d = _diff_ops(len(objs) - 1, _eff_view(prev, src), _view(snap[-1]))
                            if d is None:
                                info["unexplained"] += 1
                                d = []
                        mops = [base] + d
                    else:
                        ok = src < len(prev) and _cons_ok(prev, src, req)
                        if ok and cls in ("LexStat", "Alignments"):
                            mops = [SENTINEL]              # the analysis itself failed; taken as given
                            info["analysis_raised"] += 1
                        else:
                            mops = [base]
                elif tgt >= len(objs) or (isinstance(objs[tgt], dict) != (op in ("dset", "dapp", "dhdr"))):
                    # an earlier construction failed, so this index does not denote the object the
                    # generator had in mind: nothing is called; the model treats it alike
                    raised, err, mops = True, "harness: no such object / wrong kind", [SENTINEL]
                elif op == "add":
                    o = objs[tgt]
                    rec = {}
                    source = st["source"]
                    multi = "cols" in source and len(source["cols"]) > 1
                    f = _pyfun(st["fn"], rec, intern, multi)
                    lparser.confirm = lambda q, a=st["answer"]: a
                    try:
                        if "cols" in source:
                            o.add_entries(st["entry"], ",".join(source["cols"]), f, override=st["override"])
                        else:
                            srcd = {int(i): copy.deepcopy(v) for i, v in source["dict"]}
                            args.append((srcd, Intern.canon(srcd)))
                            o.add_entries(st["entry"], srcd, f, override=st["override"])
                    except Exception as e:          # noqa
                        raised, err = True, "%s: %s" % (type(e).__name__, e)
                    if "cols" in source:
                        msrc = "(SCols %s)" % L.zlist([intern.code(c) for c in source["cols"]])
                    else:
                        msrc = "(SDict %s)" % L.lst([L.pair(L.z(i), L.z(intern.code(v))) for i, v in source["dict"]])
                    tab = L.lst([L.pair(L.zlist(k), L.z(v)) for k, v in rec.items()])
                    mops = ["(OAdd %s %s %s (tabf %s) %s %s)" % (
                        L.nat(tgt), L.z(intern.code(st["entry"])), msrc, tab, L.b(st["override"]), L.b(st["answer"]))]
                elif op == "set":
                    try:
                        val = copy.deepcopy(st["val"])
                        args.append((val, Intern.canon(val)))
                        objs[tgt][st["id"], st["col"]] = val
                    except Exception as e:          # noqa
                        raised, err = True, "%s: %s" % (type(e).__name__, e)
                    mops = ["(OSet %s %s %s %s)" % (L.nat(tgt), L.z(st["id"]), L.z(intern.code(st["col"])),
                                                   L.z(intern.code(st["val"])))]
                elif op in ("dset", "dapp", "dhdr"):
                    d = objs[tgt]
                    assert isinstance(d, dict)
                    try:
                        if op == "dset":
                            d[_dkey(d, st["id"])][st["idx"]] = copy.deepcopy(st["val"])
                        elif op == "dapp":
                            d[_dkey(d, st["id"])].append(copy.deepcopy(st["val"]))
                        else:
                            d[0].append(st["name"])
                    except Exception as e:          # noqa
                        raised, err = True, "%s: %s" % (type(e).__name__, e)
                    if op == "dset":
                        mops = ["(ODSet %s %s %s %s)" % (L.nat(tgt), L.z(st["id"]), L.nat(st["idx"]),
                                                        L.z(intern.code(st["val"])))]
                    elif op == "dapp":
                        mops = ["(ODApp %s %s %s)" % (L.nat(tgt), L.z(st["id"]), L.z(intern.code(st["val"])))]
                    else:
                        mops = ["(ODHdr %s %s)" % (L.nat(tgt), L.z(intern.code(st["name"])))]
                elif op in ("cluster", "align", "renumber", "calculate"):
                    o = objs[tgt]
                    lparser.confirm = lambda q: True
                    try:
                        if op == "cluster":
                            kw = {"method": st["method"], "threshold": st["threshold"], "ref": st["ref"]}
                            if st["override"]:
                                kw["override"] = True
                            o.cluster(**kw)
                        elif op == "align":
                            o.align(method=st["method"], iteration=st.get("iteration", False),
                                    swap_check=st.get("swap_check", False))
                        elif op == "calculate":
                            o.calculate(st["data"], ref="cogid", cluster_method=st["cluster_method"],
                                        tree_calc=st["tree_calc"], threshold=st["threshold"], force=True)
                        else:
                            o.renumber(st["source"], override=st["override"])
                    except Exception as e:          # noqa
                        raised, err = True, "%s: %s" % (type(e).__name__, e)
                        info["analysis_raised"] += 1
                    snap = observe(objs, intern)
                    d = _diff_ops(tgt, _view(prev[tgt]), _view(snap[tgt]))
                    if d is None:
                        info["unexplained"] += 1
                        d = []
                    mops = d + ([SENTINEL] if raised else [])
                else:
                    raise AssertionError(op)
                snap = observe(objs, intern)
                info["raised"] += raised
                why = dicts_intact()
                if why is None and not all(Intern.canon(a) == c for a, c in args):
                    why = "an argument object handed to the call was modified: now %r" % ([a for a, _ in args],)
                same = why is None
                info["args_changed"] = info.get("args_changed", 0) + (not same)
                out_steps.append({"mops": mops, "tgt": tgt, "raised": raised, "err": err[:200], "snap": snap,
                                  "args_same": same, "args_note": why or ""})
                prev = snap
            info["nested_shared"] = nested_sharing(objs)
            info["meta_shared"] = meta_sharing(objs)
    finally:
        lparser.confirm = saved_confirm
    info["objects"] = len(objs)
    info["classes"] = sorted({type(o).__name__ for o in objs})
    return {"steps": out_steps, "info": info}


def _render_snap(snap):
    return L.lst(["(mkSobj %s %s %s %s %s %s %s)" % (
        L.b(o["dict"]), L.nat(o["hloc"]), L.zlist(o["hdr"]), L.zlist(o["cols"]),
        L.lst([L.pair(L.z(r[0]), L.nat(r[1]), L.zlist(r[2])) for r in o["rows"]]),
        L.b(o["strkeys"]), L.lst([L.pair(L.z(i), L.nat(l)) for i, l in o["stale"]])) for o in snap])


def render_hist(case, res):
    steps = []
    for st in res["steps"]:
        steps.append("(mkStep %s %s %s %s %s)" % (
            L.lst(st["mops"]), L.opt(st["tgt"], L.nat), L.b(st["raised"]), L.b(st["args_same"]),
            _render_snap(st["snap"])))
    return "(Build_heap_case %s)" % L.lst(steps)


def hist_nontrivial(case, res):
    """Non-trivial: at least one object was built from another one and at least one
    later step changed an object (its content differs from the snapshot before)."""
    built = False
    changed = False
    prev = None
    for st, o in zip(case["steps"], res["steps"]):
        if built and prev is not None and not o["raised"]:
            k = o["tgt"]
            if k is not None and k < len(prev) and _view(prev[k]) != _view(o["snap"][k]):
                changed = True
        if st["op"] == "cons" and not o["raised"]:
            built = True
        prev = o["snap"]
    return built and changed


def hist_classify(case, res):
    out = []
    for st, o in zip(case["steps"], res["steps"]):
        out.append("op=" + st["op"] + ("/raised" if o["raised"] else ""))
        if st["op"] == "cons":
            out.append("cons=" + st["cls"] + ("/raised" if o["raised"] else ""))
            if st["src"] < len(o["snap"]) and o["snap"][st["src"]]["stale"]:
                out.append("cons_from_object_with_meta_row_references" + ("/raised" if o["raised"] else ""))
        if st["op"] == "newdict" and st.get("strkeys"):
            out.append("dict_with_numeric_string_row_keys")
        if st["op"] == "newdict" and any(n in ODD_NAMES for n in st["hdr"]):
            out.append("dict_with_non_NFC_column_name")
        if st["op"] == "newdict" and any(n != n.strip() for n in st["hdr"]):
            out.append("dict_with_blank_in_column_name")
        if st["op"] == "newdict" and "alignment" in [n.strip() for n in st["hdr"]]:
            out.append("dict_with_alignment_column")
        if st["op"] == "newdict" and st.get("meta"):
            out.append("dict_with_meta")
            if any(k == "filename" for k, _ in st["meta"]):
                out.append("dict_with_filename_key")
    i = res["info"]
    if i["nested_shared"]:
        out.append("nested_list_cells_shared_between_objects")
    if i["meta_shared"]:
        out.append("meta_values_shared_between_objects")
    if i["unexplained"]:
        out.append("analysis_effect_unexplained")
    out.append("objects=%d" % i["objects"])
    return out


def hist_jsonable(case, res=None):
    c = {"family": "hist", "steps": case["steps"]}
    if res is not None:
        c["impl"] = {"info": res["info"],
                     "steps": [{"raised": s["raised"], "err": s["err"], "tgt": s["tgt"], "args_same": s["args_same"], "args_note": s["args_note"][:400], "model_ops": s["mops"],
                                "snapshot": s["snap"]} for s in res["steps"]]}
    return c


def _drop_object(steps, k):
    """The history without the step that creates object k (numbering: creating steps in
    order) and without every step that uses it; later object numbers move down."""
    out, n = [], 0
    for st in steps:
        creates = st["op"] in ("cons", "newdict")
        if creates and n == k:
            n += 1
            continue
        if st.get("tgt") == k or st.get("src") == k:
            if creates:
                return None              # an object built from k would have to go as well
            continue
        st = dict(st)
        for f in ("tgt", "src"):
            if f in st and st[f] > k:
                st[f] -= 1
        out.append(st)
        n += creates
    return out


def hist_shrink(case):
    steps = case["steps"]
    for n in range(1, len(steps)):
        yield {"steps": steps[:n]}
    nobj = sum(st["op"] in ("cons", "newdict") for st in steps)
    for k in range(nobj - 1, -1, -1):
        s2 = _drop_object(steps, k)
        if s2 and s2[0]["op"] == "newdict":
            yield {"steps": s2}
    for i in range(len(steps) - 1, 0, -1):
        if steps[i]["op"] not in ("cons", "newdict"):
            yield {"steps": steps[:i] + steps[i + 1:]}
    first = steps[0]
    if first["op"] == "newdict" and len(first["rows"]) > 1:
        for i in range(len(first["rows"])):
            f2 = dict(first)
            f2["rows"] = first["rows"][:i] + first["rows"][i + 1:]
            yield {"steps": [f2] + steps[1:]}


def hist_model_expr(case, res, rundir):
    return None


HIST = types.SimpleNamespace(
    IMPORTS=IMPORTS, BITS=BITS, run_impl=run_hist, render=render_hist, nontrivial=hist_nontrivial,
    classify=hist_classify, jsonable=hist_jsonable, shrink=hist_shrink, model_expr=hist_model_expr)


# ----------------------------------------------------------------------
# purity of clustering / tree functions

GRID = [F(k, 8) for k in range(0, 17)]
THRESH = [F(3, 10), F(1, 2), F(3, 4), F(1), F(1, 4), F(11, 20)]
COQ_METH = {"upgma": "Upgma", "single": "Single", "complete": "Complete", "ward": "Upgma"}

PURE_FUNS = ["flat", "flat", "flat", "flat_upgma", "upgma", "neighbor", "fuzzy", "matrix2tree", "matrix2groups",
             "mcl", "link_clustering", "find_threshold", "best_threshold", "partition_density"]
NUMPY_OK = {"flat", "flat_upgma", "upgma", "neighbor", "mcl", "matrix2groups", "partition_density",
            "low_flat", "low_flat_upgma", "low_upgma", "low_neighbor"}
# the functions of algorithm/cython/_cluster.py called directly (matrix2groups and Wordlist.calculate do so)
LOW_FUNS = ["low_flat", "low_flat", "low_flat_upgma", "low_upgma", "low_neighbor"]
# functions that take an alignment (a list of caller-owned rows of segments); the "matrix" of such a
# case holds symbol numbers: 0 = gap
ALM_FUNS = ["normalize_alignment", "normalize_alignment", "reduce_alignment", "mult_align"]
ALM_SYMS = ["-", "p", "t", "k", "a", "i", "u", "m", "(", ")"]


def gen_matrix(rng, n):
    kind = rng.choice(["grid", "ties", "coarse", "additive", "large"])
    if kind == "grid":
        vals = GRID
    elif kind == "ties":
        vals = rng.sample(GRID, 2)
    elif kind == "coarse":
        vals = [F(0), F(1, 2), F(1)]
    elif kind == "large":
        vals = [F(3, 4), F(7, 8), F(5, 4), F(3, 2)]       # squares differ clearly from the values
    else:
        vals = [F(k, 4) for k in range(1, 8)]
    m = [[F(0)] * n for _ in range(n)]
    for i in range(n):
        for j in range(i + 1, n):
            m[i][j] = m[j][i] = rng.choice(vals)
    shape = rng.random()
    if shape < 0.1:                       # upper-triangular: the lower half left at zero
        for i in range(n):
            for j in range(i):
                m[i][j] = F(0)
        kind += "/upper"
    elif shape < 0.17:                    # lower-triangular
        for i in range(n):
            for j in range(i + 1, n):
                m[i][j] = F(0)
        kind += "/lower"
    elif shape < 0.27:                    # not symmetric, some zeros off the diagonal
        for i in range(n):
            for j in range(n):
                if i != j and rng.random() < 0.4:
                    m[i][j] = rng.choice(vals + [F(0)])
        kind += "/asym"
    return kind, m


def gen_alignment(rng, fun):
    rows = rng.randint(2, 5)
    width = rng.randint(2, 5)
    letters = list(range(1, 8))
    m = [[rng.choice(letters) if rng.random() < 0.75 else 0 for _ in range(width)] for _ in range(rows)]
    c = rng.random()
    if c < 0.45:                                   # a column of gaps only
        j = rng.randrange(width)
        for r in m:
            r[j] = 0
    elif c < 0.6:                                  # rows of different length
        for r in m:
            del r[rng.randint(1, width):]
    if fun == "reduce_alignment" and width >= 3 and rng.random() < 0.7:
        a, b = sorted(rng.sample(range(width), 2))
        for r in m:
            r[:] = (r + [0] * width)[:width]
            r[a], r[b] = 8, 9                       # a bracketed part that is to be ignored
    if fun == "mult_align":
        m = [[x for x in r if 0 < x < 8] or [1] for r in m]
    return [[F(x) for x in r] for r in m]


def gen_pure(rng, max_n=7):
    fun = rng.choice(PURE_FUNS + LOW_FUNS + ALM_FUNS)
    if fun in ALM_FUNS:
        m = gen_alignment(rng, fun)
        return {"fun": fun, "n": len(m), "kind": "alignment", "matrix": m, "thr": F(1, 2), "numpy": False}
    n = rng.randint(3, max_n) if fun != "flat" else rng.randint(1, max_n)
    kind, m = gen_matrix(rng, n)
    case = {"fun": fun, "n": n, "kind": kind, "matrix": m, "thr": rng.choice(THRESH),
            "numpy": fun in NUMPY_OK and rng.random() < 0.25}
    if fun == "flat":
        case["method"] = rng.choice(["upgma", "single", "complete", "ward", "ward"])
        entries = sorted({x for r in m for x in r})
        if rng.random() < 0.4:
            case["thr"] = rng.choice(entries)
        elif rng.random() < 0.3:
            case["thr"] = rng.choice(entries) ** 2          # between d^4 and d^2 decisions for 'ward'
    elif fun in ("fuzzy",):
        case["method"] = rng.choice(["upgma", "single", "complete"])
    elif fun == "matrix2groups":
        case["method"] = rng.choice(["upgma", "single", "complete", "mcl", "ward", "ward"])
    elif fun == "low_flat":
        case["method"] = rng.choice(["upgma", "single", "complete", "ward", "ward"])
    elif fun in ("low_upgma", "low_neighbor"):
        case["distances"] = rng.random() < 0.5
    elif fun == "matrix2tree":
        case["method"] = rng.choice(["upgma", "neighbor"])
    elif fun in ("upgma", "neighbor"):
        case["distances"] = rng.random() < 0.5
    return case


def _canon_result(r):
    import numpy as np
    if isinstance(r, dict):
        return {"dict": sorted(([repr(k), _canon_result(v)] for k, v in r.items()), key=lambda x: x[0])}
    if isinstance(r, (list, tuple)):
        return [_canon_result(x) for x in r]
    if isinstance(r, (np.floating, float)):
        return repr(float(r))
    if isinstance(r, (np.integer, int)) and not isinstance(r, bool):
        return int(r)
    if isinstance(r, (str, bool)) or r is None:
        return r
    return str(r)


def _mat_snapshot(m):
    return [[F(float(x)) for x in row] for row in m]


def run_pure(case):
    import numpy as np
    from lingpy.algorithm import clustering as C
    from lingpy.algorithm.cython import _cluster as LC
    n = case["n"]
    isalm = case["fun"] in ALM_FUNS
    if isalm:
        m = [[ALM_SYMS[int(x)] for x in r] for r in case["matrix"]]
        snapshot = lambda a: [[F(ALM_SYMS.index(x)) if x in ALM_SYMS else F(-1) for x in row] for row in a]
    else:
        fm = [[float(x) for x in r] for r in case["matrix"]]
        m = np.array(fm) if case["numpy"] else fm
        snapshot = _mat_snapshot
    taxa = ["t%d" % i for i in range(n)]
    taxa0 = list(taxa)
    thr = float(case["thr"])
    fun = case["fun"]

    def call():
        if fun == "flat":
            return C.flat_cluster(case["method"], thr, m)
        if fun == "flat_upgma":
            return C.flat_upgma(thr, m)
        if fun == "upgma":
            return C.upgma(m, taxa, distances=case["distances"])
        if fun == "neighbor":
            return C.neighbor(m, taxa, distances=case["distances"])
        if fun == "fuzzy":
            return C.fuzzy(thr, m, taxa, method=case["method"])
        if fun == "matrix2tree":
            return str(C.matrix2tree(m, taxa, tree_calc=case["method"]))
        if fun == "matrix2groups":
            return C.matrix2groups(thr, m, taxa, cluster_method=case["method"])
        if fun == "mcl":
            return C.mcl(thr, m, taxa)
        if fun == "link_clustering":
            return C.link_clustering(thr, m, taxa)
        if fun == "find_threshold":
            return C.find_threshold(m)
        if fun == "best_threshold":
            return C.best_threshold(m)
        if fun == "partition_density":
            return C.partition_density(m, thr)
        if fun == "low_flat":
            return LC.flat_cluster(case["method"], thr, m)
        if fun == "low_flat_upgma":
            return LC.flat_upgma(thr, m)
        if fun == "low_upgma":
            return LC.upgma(m, taxa, case["distances"])
        if fun == "low_neighbor":
            return LC.neighbor(m, taxa, case["distances"])
        if fun == "normalize_alignment":
            from lingpy.read.qlc import normalize_alignment
            return normalize_alignment(m)
        if fun == "reduce_alignment":
            from lingpy.read.qlc import reduce_alignment
            return reduce_alignment(m)
        if fun == "mult_align":
            from lingpy.align.multiple import mult_align
            return mult_align(m)
        raise AssertionError(fun)

    outs, afters, raw = [], [], []
    with _Quiet():
        for _ in range(2):
            try:
                r = call()
            except Exception as e:                  # noqa  (raising twice alike is "the same answer")
                r = "EXC:" + type(e).__name__
            raw.append(r)
            outs.append(json.dumps(_canon_result(r), sort_keys=True))
            afters.append(snapshot(m))
    res = {"res": outs, "after": afters, "taxa0": taxa0, "taxa2": list(taxa)}
    if fun in ("flat", "flat_upgma", "low_flat", "low_flat_upgma") and all(isinstance(r, dict) for r in raw):
        res["flat"] = [[(int(k), [int(i) for i in v]) for k, v in r.items()] for r in raw]
    return res


def _clusters_lit(cl):
    return L.lst([L.pair(L.nat(k), L.natlist(v)) for k, v in cl])


def render_pure(case, res):
    islow = "flat" in res and case["fun"] in ("low_flat", "low_flat_upgma")
    isflat = "flat" in res and not islow
    meth = case.get("method", "upgma") if case["fun"] in ("flat", "low_flat") else "upgma"
    low = 0 if not islow else (2 if meth == "ward" else 1)     # cython/_cluster.flat_cluster knows no 'ward'
    tcode = lambda names: L.zlist([int(t[1:]) if t[:1] == "t" and t[1:].isdigit() else -1 for t in names])
    return L.record("pure_case", [
        L.b(isflat), L.nat(low), L.b(isflat and meth == "ward"), COQ_METH[meth], L.q(case["thr"]),
        L.qmat(case["matrix"]), L.qmat(res["after"][0]), L.qmat(res["after"][1]),
        tcode(res["taxa0"]), tcode(res["taxa2"]),
        L.zlist([ord(c) for c in res["res"][0]]), L.zlist([ord(c) for c in res["res"][1]]),
        _clusters_lit(res["flat"][0]) if isflat or islow else "[]",
        _clusters_lit(res["flat"][1]) if isflat or islow else "[]"])


def pure_nontrivial(case, res):
    """Non-trivial: the function returned a value (did not raise) on a matrix with at
    least one non-zero off-diagonal entry."""
    return (not res["res"][0].startswith('"EXC:')) and any(x != 0 for r in case["matrix"] for x in r)


def pure_classify(case, res):
    out = ["fun=" + case["fun"] + ("/" + case["method"] if "method" in case else ""), "n=%d" % case["n"]]
    if "/" in case.get("kind", ""):
        out.append("matrix_shape=" + case["kind"].split("/")[1])
    if case["numpy"]:
        out.append("numpy_matrix")
    if res["res"][0].startswith('"EXC:'):
        out.append("raised=" + res["res"][0])
    return out


def pure_jsonable(case, res=None):
    c = dict(case)
    c["family"] = "pure"
    c["matrix"] = [[str(x) for x in r] for r in case["matrix"]]
    c["thr"] = str(case["thr"])
    if res is not None:
        c["impl"] = {"results": res["res"], "taxa_after": res["taxa2"],
                     "matrix_after_call1": [[str(x) for x in r] for r in res["after"][0]],
                     "matrix_after_call2": [[str(x) for x in r] for r in res["after"][1]]}
    return c


def pure_shrink(case):
    n, m = case["n"], case["matrix"]
    if case["fun"] in ALM_FUNS:
        for drop in range(n):
            if n > 2:
                c = dict(case)
                c["n"] = n - 1
                c["matrix"] = m[:drop] + m[drop + 1:]
                yield c
        return
    if n > (1 if case["fun"] == "flat" else 3):
        for drop in range(n):
            keep = [i for i in range(n) if i != drop]
            c = dict(case)
            c["n"] = n - 1
            c["matrix"] = [[m[i][j] for j in keep] for i in keep]
            yield c
    if case["numpy"]:
        c = dict(case)
        c["numpy"] = False
        yield c


PURE = types.SimpleNamespace(
    IMPORTS=IMPORTS, BITS=BITS, run_impl=run_pure, render=render_pure, nontrivial=pure_nontrivial,
    classify=pure_classify, jsonable=pure_jsonable, shrink=pure_shrink, model_expr=lambda c, r, d: None)


def from_json(c):
    c = dict(c)
    c.pop("impl", None)
    fam = c.pop("family")
    if fam == "pure":
        c["matrix"] = [[F(x) for x in r] for r in c["matrix"]]
        c["thr"] = F(c["thr"])
        return PURE, c, "pure_case", "pure_case_code"
    return HIST, c, "heap_case", "heap_case_code"
