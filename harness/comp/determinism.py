"""Component: determinism (C18).

Three parts:
 * dataset generation (small wordlists whose language / concept names collide under
   case folding and contain non-ASCII letters; a cut-down copy of tests/test_data/KSL.qlc);
 * the WORKER (this file run as a script in a subprocess with a given PYTHONHASHSEED):
   for every dataset it observes (a) the set-iteration kernels - inputs, the actual
   iteration order of every set involved, the kernel results -, (b) the outputs of the
   seeded end-to-end pipeline, (c) the outcome of repeating analyses on one object;
 * rendering of the kernel observations as Gallina case literals and the stream
   components used by harness/props/C18.py (driver.run_stream interface).
"""
import json
import os
import random
import struct
import sys

IMPORTS = "From LV Require Import Common.Cases Runtime.SortX Runtime.Determinism Runtime.DeterminismExec."

# ----------------------------------------------------------------------------------
# datasets

LANG_POOL = [["Ab", "aB", "AB", "ab"], ["Zeta", "zeta", "ZETA"], ["Élan", "élan", "Elan"],
             ["İx", "ix", "Ix", "i̇x"], ["ǅa", "ǆa", "Ǆa"],
             ["Ωm", "ωm"], ["ẞz", "ßz", "ssz"], ["ΑΣ", "ας", "ασ"],
             ["Mid", "mid"], ["Q1", "q1"], ["b", "B", "a", "C"]]
CONCEPT_POOL = [["hand", "Hand", "HAND"], ["foot", "Foot"], ["ähre", "Ähre", "Ahre"],
                ["eye", "EYE", "Eye"], ["Σας", "σας"], ["I", "i", "ı", "İ"],
                ["stone", "STONE"], ["water"], ["Water"], ["to be", "To Be"], ["x", "X", "y", "Y"],
                ["Жук", "жук"], ["1", "10", "2"]]
NOTE_POOL = ["", "", "x", "X", "b", "B", "ä", "Ä", "a b", "A b", "10", "9"]
CONS = ["p", "t", "k", "b", "d", "g", "m", "n", "s", "l", "r", "h", "w", "j", "f", "v", "z", "ʃ", "ŋ"]
VOWS = ["a", "e", "i", "o", "u", "ɔ", "ɛ", "ə"]


def gen_word(rng):
    n = rng.choice([1, 2, 2, 3, 3, 4])
    out = []
    for k in range(n):
        out.append(rng.choice(CONS))
        out.append(rng.choice(VOWS))
    if rng.random() < 0.4:
        out.append(rng.choice(CONS))
    if rng.random() < 0.2:
        out = out[1:]
    return out


def _pick_names(rng, pool, n):
    """n distinct names, preferring several from the same collision group"""
    groups = rng.sample(pool, len(pool))
    out, width = [], max(1, n // 2)
    for tries in range(1000):
        if len(out) >= n:
            break
        if tries and tries % 20 == 0:
            width += 1                            # the chosen groups are exhausted: open another one
        x = rng.choice(rng.choice(groups[:width]))
        if x not in out:
            out.append(x)
    assert len(out) == n, (out, n)
    return out


def gen_dataset(rng, name, big=False):
    """A small wordlist: rows (id, doculect, concept, ipa, tokens, note)."""
    nl = rng.choice([3, 3, 4, 4, 5] if not big else [5, 6])
    nc = rng.choice([4, 5, 6, 7, 8] if not big else [9, 12])
    langs = _pick_names(rng, LANG_POOL, nl)
    concepts = _pick_names(rng, CONCEPT_POOL, nc)
    protos = {c: gen_word(rng) for c in concepts}
    forms = {l: [gen_word(rng) for _ in range(3)] for l in langs}   # small per-language pool: duplicates
    rows = []
    for c in concepts:
        for l in langs:
            r = rng.random()
            if r < 0.12:
                continue                          # missing cell
            k = 2 if r > 0.85 else 1              # synonyms
            for _ in range(k):
                q = rng.random()
                if q < 0.45:
                    w = list(protos[c])           # cognate: shared form
                    if rng.random() < 0.5 and len(w) > 1:
                        w[rng.randrange(len(w))] = rng.choice(CONS + VOWS)
                elif q < 0.7:
                    w = list(rng.choice(forms[l]))  # repeated form in the language
                else:
                    w = gen_word(rng)
                rows.append([l, c, "".join(w), " ".join(w), rng.choice(NOTE_POOL)])
    rng.shuffle(rows)
    ids = list(range(1, len(rows) + 1))
    if rng.random() < 0.5:
        ids = sorted(rng.sample(range(1, 3 * len(rows) + 2), len(rows)))
    return {"name": name, "header": ["ID", "DOCULECT", "CONCEPT", "IPA", "TOKENS", "NOTE"],
            "rows": [[i] + r for i, r in zip(ids, rows)]}


def ksl_dataset(rng, repo, nlang=5, nconc=12):
    """A cut-down copy of the shipped test wordlist; one language renamed so that two names
    collide under case folding."""
    path = os.path.join(repo, "tests", "test_data", "KSL.qlc")
    lines = [l.rstrip("\n") for l in open(path, encoding="utf8")]
    lines = [l for l in lines if l and not l.startswith("#")]
    head = lines[0].split("\t")
    body = [l.split("\t") for l in lines[1:]]
    di, ci = head.index("DOCULECT"), head.index("CONCEPT")
    ii, ti = head.index("IPA"), head.index("Tokens")
    langs = sorted({r[di] for r in body})
    concs = sorted({r[ci] for r in body})
    keepl = rng.sample(langs, nlang)
    keepc = rng.sample(concs, nconc)
    ren = {keepl[0]: keepl[1].lower() if rng.random() < 0.5 else keepl[1].upper()}
    rows = []
    for r in body:
        if r[di] in keepl and r[ci] in keepc:
            rows.append([int(r[0]), ren.get(r[di], r[di]), r[ci], r[ii], r[ti], rng.choice(NOTE_POOL)])
    return {"name": "ksl_cut", "header": ["ID", "DOCULECT", "CONCEPT", "IPA", "TOKENS", "NOTE"], "rows": rows}


def write_dataset(ds, directory):
    os.makedirs(directory, exist_ok=True)
    path = os.path.join(directory, ds["name"] + ".tsv")
    with open(path, "w", encoding="utf8") as f:
        f.write("\t".join(ds["header"]) + "\n")
        for r in ds["rows"]:
            f.write("\t".join(str(x) for x in r) + "\n")
    return path


# ----------------------------------------------------------------------------------
# WORKER (subprocess)

def _fid(table, x):
    """integer name of a float (by bit pattern); 0.0 and -0.0 share a name, as == does"""
    x = float(x)
    if x == 0.0:
        x = 0.0
    key = struct.pack(">d", x)
    if key not in table:
        table[key] = len(table) + 1
    return table[key]


def _matrix_ids(table, m):
    return [[_fid(table, v) for v in row] for row in m]


def observe_kernels(lex):
    """Inputs, set iteration orders and results of the kernels, right after construction."""
    from lingpy.util import charstring  # noqa
    ri, ci = lex._rowIdx, lex._colIdx
    keys = [k for k in lex._data if k != 0 and isinstance(k, int)]
    data = [[k, lex._data[k][ri], lex._data[k][ci]] for k in keys]
    # the same constructions as in unique_sorted (basic/parser.py)
    row_order = list(set([lex._data[k][ri] or '' for k in lex._data if k != 0 and isinstance(k, int)]))
    col_order = list(set([lex._data[k][ci] or '' for k in lex._data if k != 0 and isinstance(k, int)]))
    names = sorted(set(row_order) | set(col_order))
    cols = list(lex.cols)
    obs = {"wl": {
        "lower": [[s, s.lower()] for s in names],
        "data": data, "row_order": row_order, "col_order": col_order,
        "rows": list(lex.rows), "cols": cols,
        "dict": [[r, [[c, list(map(int, ids))] for c, ids in d.items() if ids]] for r, d in lex._dict.items()],
        "idx": [[r, list(map(int, v))] for r, v in lex._idx.items()],
        "array": [[int(x) for x in row] for row in lex._array.tolist()],
        "coldicts": [[[c, list(map(int, v))] for c, v in lex.get_dict(col=t).items()] for t in cols],
        "collists": [[int(x) for x in lex.get_list(col=t, flat=True)] for t in cols],
        # the concept order and ids the clustering loop really sees (lexstat._get_matrices)
        "concepts": [[c, [int(x) for x in idxs]] for c, idxs, _m in lex._get_matrices(method='turchin')],
    }}
    # LexStat index: the same constructions as in lexstat.py 397-410
    chars = set()
    for taxon in lex.cols:
        chars = chars.union(lex.freqs[taxon].keys())
    chars_order = list(chars)
    rchars_order = list(set(char.split('.', 1)[1] for char in chars))
    inter = []
    for i, tA in enumerate(cols):
        for j, tB in enumerate(cols):
            if i < j:
                dictA, dictB = lex.get_dict(col=tA), lex.get_dict(col=tB)
                inter.append([[i, j], list(set(dictA).intersection(dictB))])
    dups = []
    for t in cols:
        for idx in lex.get_list(col=t, flat=True):
            dups.append([int(idx), 1 if lex[idx, lex._duplicates] == 1 else 0])
    obs["lex"] = {
        "cols": cols,
        "words": [[list(w) for w in lex.get_list(col=t, entry=lex._numbers, flat=True)] for t in cols],
        "chars_order": chars_order, "rchars_order": rchars_order,
        "fkeys": [list(lex.freqs[t]) for t in cols],
        "chars": list(lex.chars), "rchars": list(lex.rchars),
        "dicts": obs["wl"]["coldicts"],
        "segs": [[k, ''.join(lex[k, lex._segments])] for k in keys],
        "trans": [[k, lex[k, lex._transcription]] for k in keys],
        "collists": obs["wl"]["collists"],
        "dups": dups, "inter": inter,
        "pairs": [[[cols.index(a), cols.index(b)], [[int(x), int(y)] for x, y in v]] for (a, b), v in lex.pairs.items()],
        "concept_of": [[k, lex._data[k][ri]] for k in keys],
    }
    return obs


def observe_renumber(lex, source, target):
    vals = [str(lex[k, source]) for k in lex]
    order = list(set([str(lex[k, source]) for k in lex]))          # as in basic/ops.py renumber
    lex.renumber(source, target)
    conv = lex._meta[source + '2' + target]
    return {"source": source, "vals": vals, "order": order,
            "sources": [k for k in conv.keys() if isinstance(k, str)],
            "col": [int(lex[k, target]) for k in lex]}


def column(lex, name):
    return [[k, lex[k, name]] for k in lex]


def newick(lex, ref, tree_calc):
    lex.calculate('dst', ref=ref)
    lex.calculate('tree', ref=ref, tree_calc=tree_calc, force=True)
    return str(lex.tree)


# non-default keyword values of get_scorer; the first one (vowel scale, other ratio) is always used
SCORER_VARIANTS = [
    dict(vscale=0.5, ratio=(2, 1)),
    dict(vscale=0.25, ratio=(1, 1), factor=0.5, smooth=0),
    dict(vscale=2.0, ratio=(3, 1), modes=[("global", -3, 0.6), ("overlap", -1, 0.4)], unattested=-3, unexpected=0.001),
    dict(vscale=0.75, threshold=0.5, restricted_chars="_", modes=[("local", -2, 0.5)]),
    dict(vscale=0.5, ratio=(1, 2), preprocessing=True, preprocessing_threshold=0.6, smooth=2),
]


def _jsonable_kw(kw):
    return {k: (list(map(list, v)) if k == "modes" else list(v) if isinstance(v, tuple) else v) for k, v in kw.items()}


OPTION_HISTORIES = [
    (dict(method='sca', threshold=0.5, cluster_method='mcl', ref='oh_mcl'), dict(inflation=4)),
    (dict(method='sca', threshold=0.5, cluster_method='mcl', ref='oh_mcl'), dict(add_self_loops=False, expansion=3)),
    (dict(method='sca', threshold=0.6, cluster_method='link_clustering', ref='oh_link'), dict(link_threshold=0.5)),
    (dict(method='sca', threshold=0.6, cluster_method='link_clustering', ref='oh_link'), dict(matrix_type='weights')),
    (dict(method='edit-dist', threshold=0.6, cluster_method='upgma', ref='oh_edit'),
     dict(guess_threshold=True, gt_mode='item', gt_trange=(0.3, 0.7, 0.1))),
]

# the optional keywords of the unchanged tree (get_scorer(defaults=True) / cluster(defaults=True)); a keyword outside
# these sets is new and is swept with generic values
KNOWN_KEYWORDS = {
    "get_scorer": {'cluster_method', 'defaults', 'factor', 'force', 'gop', 'limit', 'method', 'modes', 'preprocessing',
                   'preprocessing_method', 'preprocessing_threshold', 'rands', 'ratio', 'restricted_chars', 'runs',
                   'smooth', 'subset', 'threshold', 'unattested', 'unexpected', 'vscale'},
    "cluster": {'_return_matrix', 'add_self_loops', 'defaults', 'expansion', 'external_scorer', 'gt_mode', 'gt_trange',
                'guess_threshold', 'inflation', 'link_threshold', 'matrix_type', 'max_steps', 'mcl_logs'},
}


def keyword_sweep(path, seed, runs):
    """Generic sweep: every optional keyword the current code offers beyond the known ones is called with a string,
    a number, a tuple and True, the generator seeded identically before each call; the results enter the
    cross-interpreter comparison."""
    from lingpy import LexStat
    results = []
    base = {"get_scorer": dict(runs=runs, force=True),
            "cluster": dict(method='sca', threshold=0.45, override=True, ref='sweepid')}
    for meth in ("get_scorer", "cluster"):
        try:
            offered = set(getattr(LexStat(path), meth)(defaults=True))
        except Exception:
            continue
        new = sorted(offered - KNOWN_KEYWORDS[meth])
        if not new:
            continue
        obj = LexStat(path)
        for key in new:
            for val in ("KSL", 7, ("KSL", 1), True):
                random.seed(seed)
                try:
                    getattr(obj, meth)(**dict(base[meth], **{key: val}))
                    res = ([[float(v).hex() for v in row] for row in obj.cscorer.matrix] if meth == "get_scorer"
                           else column(obj, 'sweepid'))
                except Exception as e:
                    res = "raised %s" % type(e).__name__
                results.append([meth, key, repr(val), res])
    return results


CLUSTER_CALLS = [
    ("turchinid", dict(method='turchin', threshold=0.5)),
    ("editid", dict(method='edit-dist', threshold=0.5)),
    ("scaid", dict(method='sca', threshold=0.45)),
    ("lexstatid", dict(method='lexstat', threshold=0.6)),
    ("lexsingle", dict(method='lexstat', threshold=0.6, cluster_method='single', ref='lexsingle')),
    ("mclid", dict(method='lexstat', threshold=0.6, cluster_method='mcl', ref='mclid')),
    ("linkid", dict(method='sca', threshold=0.5, cluster_method='link_clustering', ref='linkid')),
]


# call histories on ONE analysis object: the result of call k on a used object must be the result
# of the same call on a fresh object (state cached between calls would show here)
MULT_OPS = [("prog_align", {}), ("lib_align", {}), ("prog_align", {"tree_calc": "neighbor"}),
            ("prog_align", {"mode": "dialign"}), ("prog_align", {"gop": -4, "scale": 0.6}),
            ("lib_align", {"tree_calc": "neighbor"}), ("prog_align", {"factor": 0.5, "gap_weight": 0.2}),
            ("prog_align", {})]
PAIR_OPS = [{}, {"mode": "local"}, {"mode": "overlap"}, {"mode": "dialign"}, {"distance": True},
            {"gop": -3, "scale": 0.7}, {}]


def _rows(m):
    return [[str(x) for x in r] for r in m.alm_matrix]


def _pw(p):
    return [[[str(x) for x in a], [str(x) for x in b], float(sc).hex()] for a, b, sc in p.alignments]


def function_repeats(dm, taxa, thr):
    """Clustering / tree functions called twice with the SAME matrix object (a list of lists and a numpy float
    array) and once with a fresh copy: all three results must be equal."""
    import numpy as np
    from lingpy.algorithm import clustering
    canon = lambda r: (sorted([[str(k), v if isinstance(v, list) else [v]] for k, v in r.items()], key=lambda kv: kv[0])
                       if isinstance(r, dict) else str(r))
    calls = [("mcl", lambda m: clustering.mcl(thr, m, list(taxa))),
             ("mcl_revert", lambda m: clustering.mcl(thr, m, list(taxa), revert=True)),
             ("matrix2groups_mcl", lambda m: clustering.matrix2groups(thr, m, list(taxa), 'mcl')),
             ("matrix2groups_upgma", lambda m: clustering.matrix2groups(thr, m, list(taxa), 'upgma')),
             ("link_ints", lambda m: clustering.link_clustering(thr, m, list(range(len(taxa))), revert=True, fuzzy=False)),
             ("flat_upgma", lambda m: clustering.flat_cluster('upgma', thr, m, list(taxa))),
             ("flat_single", lambda m: clustering.flat_cluster('single', thr, m, list(taxa))),
             ("flat_complete", lambda m: clustering.flat_cluster('complete', thr, m, list(taxa))),
             ("flat_ward", lambda m: clustering.flat_cluster('ward', thr, m, list(taxa))),
             ("upgma", lambda m: clustering.upgma(m, list(taxa))),
             ("neighbor", lambda m: clustering.neighbor(m, list(taxa))),
             ("matrix2tree", lambda m: clustering.matrix2tree(m, list(taxa), 'upgma'))]
    results, bad = [], []
    for kind, mk in (("list", lambda: [[float(v) for v in r] for r in dm]),
                     ("ndarray", lambda: np.array(dm, dtype=float))):
        for name, fn in calls:
            m = mk()
            try:
                first = canon(fn(m))
                second = canon(fn(m))
                fresh = canon(fn(mk()))
            except ImportError as e:
                results.append([kind, name, "unavailable"])
                continue
            results.append([kind, name, fresh])
            if not (first == second == fresh):
                bad.append({"analysis": "%s called twice with the same %s matrix object" % (name, kind),
                            "args": {"matrix": [[float(v) for v in r] for r in dm], "taxa": list(taxa), "threshold": thr},
                            "first": [first, fresh], "second": [second, fresh]})
    return results, bad


def object_histories(lex, seed, ngroups):
    """Returns (results for the cross-interpreter comparison, list of repetition failures)."""
    from lingpy.align.multiple import Multiple
    from lingpy.align.sca import MSA
    from lingpy.align.pairwise import Pairwise
    rng = random.Random(seed)                          # a private generator: the same histories in every interpreter
    groups = []
    for c in lex.rows:
        toks = [list(t) for t in lex.get_list(row=c, entry=lex._segments, flat=True)]
        if len(toks) >= 2:
            groups.append((c, toks[:6]))
    rng.shuffle(groups)
    results, bad = [], []
    for c, toks in groups[:ngroups]:
        for cname in ("Multiple", "MSA"):
            def make():
                if cname == "Multiple":
                    return Multiple([list(t) for t in toks])
                return MSA({"seqs": [list(t) for t in toks], "taxa": ["L%d" % i for i in range(len(toks))],
                            "ID": list(range(1, len(toks) + 1)), "dataset": "d", "seq_id": "x"})
            hist = [rng.choice(MULT_OPS) for _ in range(3)]
            if rng.random() < 0.5:
                hist[1] = hist[0]                      # the same analysis twice in a row
            used = make()
            for k, (meth, kw) in enumerate(hist):
                getattr(used, meth)(**kw)
                got = _rows(used)
                fresh = make()
                getattr(fresh, meth)(**kw)
                want = _rows(fresh)
                results.append(want)
                if got != want:
                    bad.append({"analysis": "%s: call %d of a history on one object differs from the same call on a "
                                            "fresh object" % (cname, k + 1),
                                "args": {"concept": c, "sequences": [" ".join(t) for t in toks],
                                         "history": [[m, a] for m, a in hist[:k + 1]]},
                                "first": want, "second": got})
                    break
        pairs = [(" ".join(toks[i]), " ".join(toks[j])) for i in range(len(toks)) for j in range(i + 1, len(toks))][:6]
        hist = [rng.choice(PAIR_OPS) for _ in range(3)]
        used = Pairwise(list(pairs))
        for k, kw in enumerate(hist):
            used.align(**kw)
            got = _pw(used)
            fresh = Pairwise(list(pairs))
            fresh.align(**kw)
            want = _pw(fresh)
            results.append(want)
            if got != want:
                bad.append({"analysis": "Pairwise: call %d of a history on one object differs from the same call on a "
                                        "fresh object" % (k + 1),
                            "args": {"pairs": pairs, "history": hist[:k + 1]}, "first": want, "second": got})
                break
    return results, bad


def pipeline(path, seed, runs, full):
    """(a) kernel observations, (b) seeded end-to-end outputs, (c) repetition outcomes."""
    import lingpy
    from lingpy import LexStat, Alignments
    random.seed(seed)
    lex = LexStat(path)
    out = {"kernels": observe_kernels(lex)}
    out["kernels"]["renum"] = [observe_renumber(lex, 'concept', 'cid'), observe_renumber(lex, 'note', 'nid')]
    e2e, rep = {}, []
    # --- (b) seeded pipeline
    random.seed(seed)
    b_before = [[float(v).hex() for v in row] for row in lex.bscorer.matrix]
    lex.get_scorer(runs=runs)
    if [[float(v).hex() for v in row] for row in lex.bscorer.matrix] != b_before:
        rep.append({"analysis": "get_scorer changed the basic scorer (bscorer) that sca alignments on the same object read",
                    "args": {"runs": runs}, "first": b_before,
                    "second": [[float(v).hex() for v in row] for row in lex.bscorer.matrix]})
    tab = {}
    b_ids, c_ids = _matrix_ids(tab, lex.bscorer.matrix), _matrix_ids(tab, lex.cscorer.matrix)
    out["kernels"]["scorer"] = {"chars": list(lex.chars), "fkeys": [list(lex.freqs[t]) for t in lex.cols],
                                "b": b_ids, "c": c_ids}
    e2e["cscorer"] = [[float(v).hex() for v in row] for row in lex.cscorer.matrix]
    e2e["cscorer_asym"] = [[a, b] for a in range(len(lex.chars)) for b in range(a)
                           if lex.cscorer.matrix[a][b] != lex.cscorer.matrix[b][a]][:5]
    e2e["chars"] = list(lex.chars)
    e2e["rows"], e2e["cols"] = list(lex.rows), list(lex.cols)
    for ref, kw in CLUSTER_CALLS:
        try:
            lex.cluster(override=True, **kw)
            e2e[ref] = column(lex, ref)
        except ImportError as e:      # optional third-party package missing: not part of the comparison
            e2e[ref] = "unavailable: %s" % type(e).__name__
    if full:
        random.seed(seed + 1)
        lex.cluster(method='lexstat', threshold=0.6, guess_threshold=True, gt_mode='nulld', ref='guessid',
                    override=True)
        e2e["guessid"] = column(lex, 'guessid')
        e2e["guessed_threshold"] = float(lex._meta['guessed_threshold']).hex()
        random.seed(seed + 1)                      # identically seeded again (lingpy draws from `random` only)
        lex.cluster(method='lexstat', threshold=0.6, guess_threshold=True, gt_mode='nulld', ref='guessid',
                    override=True)
        if float(lex._meta['guessed_threshold']).hex() != e2e["guessed_threshold"] or column(lex, 'guessid') != e2e["guessid"]:
            rep.append({"analysis": "cluster(guess_threshold=True, gt_mode='nulld') twice with random.seed(%d) before "
                                    "each call" % (seed + 1),
                        "args": {"method": "lexstat", "threshold": 0.6},
                        "first": [e2e["guessed_threshold"], e2e["guessid"]],
                        "second": [float(lex._meta['guessed_threshold']).hex(), column(lex, 'guessid')]})
    # K9: the distance matrix the tree calculation starts from (basic/ops.py wl2dst, mode swadesh)
    from lingpy.basic.ops import wl2dst
    out["kernels"]["dst"] = []
    for ref in ("scaid", "lexstatid", "turchinid"):
        out["kernels"]["dst"].append({
            "ref": ref, "rows": list(lex.rows),
            "dicts": [[[c, [int(v) for v in vals]] for c, vals in lex.get_dict(col=t, entry=ref).items()]
                      for t in lex.cols],
            "matrix": [[float(v).hex() for v in row] for row in wl2dst(lex, ref=ref)]})
    for ref in ("scaid", "lexstatid"):
        for tc in ("upgma", "neighbor"):
            e2e["tree_%s_%s" % (ref, tc)] = newick(lex, ref, tc)
    # Markov / link / flat clustering of the LANGUAGES by name (string node labels)
    from lingpy.algorithm import clustering
    lex.calculate('dst', ref='scaid')
    dm = [[float(v) for v in row] for row in lex._meta['distances']]
    offd = sorted(dm[i][j] for i in range(len(dm)) for j in range(i))
    thr = offd[len(offd) // 2] if offd else 0.5            # the median distance: some merges, not all
    canon = lambda d: sorted([[str(k), v if isinstance(v, list) else [v]] for k, v in d.items()], key=lambda kv: kv[0])
    for nm, fn in (("taxa_link", lambda: clustering.link_clustering(thr, [r[:] for r in dm], list(lex.cols))),
                   ("taxa_link_nf", lambda: clustering.link_clustering(thr, [r[:] for r in dm], list(lex.cols), fuzzy=False)),
                   ("taxa_link_lt", lambda: clustering.link_clustering(thr, [r[:] for r in dm], list(lex.cols),
                                                                        link_threshold=0.5, fuzzy=False)),
                   ("taxa_link_lt_rev", lambda: clustering.link_clustering(thr, [r[:] for r in dm], list(lex.cols),
                                                                            link_threshold=0.3, revert=True)),
                   ("taxa_link_w", lambda: clustering.link_clustering(thr, [r[:] for r in dm], list(lex.cols),
                                                                       link_threshold=0.5, fuzzy=False,
                                                                       matrix_type='weights')),
                   ("taxa_mcl", lambda: clustering.mcl(thr, [r[:] for r in dm], list(lex.cols))),
                   ("taxa_flat", lambda: clustering.flat_cluster('upgma', thr, [r[:] for r in dm], list(lex.cols)))):
        # link clustering of STRING node names: on the tree at 1c54340 HLC numbers the link communities in the
        # iteration order of a set of string pairs, so labels (and with fuzzy=False the partition) depend on the
        # hash seed.  Cognate detection calls it with integer nodes (deterministic).  These direct calls are kept
        # apart ("aux"); what a difference means is decided by known_findings.json (see props/C18.link_policy).
        target = out.setdefault("aux", {}) if nm.startswith("taxa_link") else e2e
        try:
            target[nm] = canon(fn())
        except ImportError as e:
            target[nm] = "unavailable: %s" % type(e).__name__
    e2e["renumber"] = [r["col"] for r in out["kernels"]["renum"]]
    alm = Alignments(lex, ref='lexstatid')
    alm.align(method='progressive')
    e2e["alignment"] = column(alm, 'alignment')
    alm2 = Alignments(lex, ref='scaid')
    alm2.align(method='library', iteration=True)
    e2e["alignment_lib"] = column(alm2, 'alignment')
    if full:
        random.seed(seed)
        lex2 = LexStat(path)
        lex2.get_scorer(runs=runs, method='markov', rands=15, limit=100)
        e2e["cscorer_markov"] = [[float(v).hex() for v in row] for row in lex2.cscorer.matrix]
        lex2.cluster(method='lexstat', threshold=0.6, override=True)
        e2e["lexstatid_markov"] = column(lex2, 'lexstatid')
    # non-default keyword values of get_scorer / get_partial_scorer on fresh objects: two variants per dataset
    from lingpy.compare.partial import Partial as _Partial
    vr = random.Random("%s-%d" % (os.path.basename(path), seed))      # str seed: independent of PYTHONHASHSEED
    picks = [SCORER_VARIANTS[0]] + vr.sample(SCORER_VARIANTS[1:], 1)
    out["kernels"]["scorer_variants"] = []
    e2e["scorer_variants"] = []
    for vi, kw in enumerate(picks):
        cls = _Partial if (vi == 1 and vr.random() < 0.5) else LexStat
        random.seed(seed)
        lv = cls(path)
        random.seed(seed)
        (lv.get_partial_scorer if cls is _Partial else lv.get_scorer)(runs=runs, **kw)
        mv = lv.cscorer.matrix
        tabv = {}
        out["kernels"]["scorer_variants"].append({
            "chars": list(lv.chars), "fkeys": [list(lv.freqs[t]) for t in lv.cols],
            "b": _matrix_ids(tabv, lv.bscorer.matrix), "c": _matrix_ids(tabv, mv)})
        asym = [[lv.chars[a], lv.chars[b], float(mv[a][b]).hex(), float(mv[b][a]).hex()]
                for a in range(len(mv)) for b in range(a) if mv[a][b] != mv[b][a]][:5]
        lv.cluster(method='lexstat', threshold=0.6, override=True)
        e2e["scorer_variants"].append({"class": cls.__name__, "keywords": _jsonable_kw(kw), "asymmetric": asym,
                                       "cscorer": [[float(v).hex() for v in row] for row in mv],
                                       "lexstatid": column(lv, 'lexstatid')})
    # Partial cognate detection: its own scorer assembly (compare/partial.py), clusterings
    from lingpy.compare.partial import Partial
    random.seed(seed)
    part = Partial(path)
    random.seed(seed)
    part.get_partial_scorer(runs=runs)
    tabp = {}
    out["kernels"]["scorer_partial"] = {"chars": list(part.chars), "fkeys": [list(part.freqs[t]) for t in part.cols],
                                        "b": _matrix_ids(tabp, part.bscorer.matrix),
                                        "c": _matrix_ids(tabp, part.cscorer.matrix)}
    pm = part.cscorer.matrix
    e2e["partial_cscorer"] = [[float(v).hex() for v in row] for row in pm]
    e2e["partial_chars"] = list(part.chars)
    e2e["partial_cscorer_asym"] = [[a, b] for a in range(len(pm)) for b in range(a) if pm[a][b] != pm[b][a]][:5]
    for ref, kw in (("p_lexstat", dict(method='lexstat', threshold=0.6, cluster_method='upgma', ref='p_lexstat')),
                    ("p_sca", dict(method='sca', threshold=0.45, cluster_method='single', ref='p_sca')),
                    ("p_mcl", dict(method='sca', threshold=0.45, cluster_method='mcl', ref='p_mcl'))):
        part.partial_cluster(**kw)
        e2e[ref] = [v for k, v in column(part, ref)]
    # again, in another order (partial_cluster cannot overwrite a column: the repetition writes a new one)
    for ref, kw in (("p_sca", dict(method='sca', threshold=0.45, cluster_method='single', ref='p_sca_again')),
                    ("p_lexstat", dict(method='lexstat', threshold=0.6, cluster_method='upgma', ref='p_lexstat_again'))):
        part.partial_cluster(**kw)
        again = [v for k, v in column(part, kw['ref'])]
        if again != e2e[ref]:
            rep.append({"analysis": "partial_cluster", "args": kw, "first": e2e[ref], "second": again})
    random.seed(seed)
    part.get_partial_scorer(runs=runs, force=True)
    again = [[float(v).hex() for v in row] for row in part.cscorer.matrix]
    if again != e2e["partial_cscorer"]:
        rep.append({"analysis": "get_partial_scorer(force=True) after re-seeding", "args": {"runs": runs},
                    "first": "e2e.partial_cscorer", "second": again})
    # (C) the same function call twice on the SAME input object (list and numpy array), and on a fresh copy
    fres, fbad = function_repeats(dm, list(lex.cols), thr)
    e2e["function_repeats"] = fres
    rep.extend(fbad)
    # --- (c) the same analyses again on the same objects, in another order
    order = list(reversed(CLUSTER_CALLS)) + CLUSTER_CALLS[:3]
    for ref, kw in order:
        if isinstance(e2e[ref], str):
            continue
        try:
            lex.cluster(override=True, **kw)
        except Exception as e:                     # it did not raise the first time
            rep.append({"analysis": "cluster: the call that succeeded the first time raised %s: %s when repeated after "
                                    "other cluster calls on the same object" % (type(e).__name__, e), "args": kw})
            break
        again = column(lex, ref)
        if again != e2e[ref]:
            rep.append({"analysis": "cluster", "args": kw, "first": e2e[ref], "second": again})
    for ref in ("scaid", "lexstatid"):
        for tc in ("upgma", "neighbor"):
            again = newick(lex, ref, tc)
            if again != e2e["tree_%s_%s" % (ref, tc)]:
                rep.append({"analysis": "tree", "args": [ref, tc], "first": e2e["tree_%s_%s" % (ref, tc)],
                            "second": again})
    alm.align(method='progressive')
    again = column(alm, 'alignment')
    if again != e2e["alignment"]:
        rep.append({"analysis": "align", "args": "progressive", "first": e2e["alignment"], "second": again})
    random.seed(seed)
    lex.get_scorer(runs=runs, force=True)
    again = [[float(v).hex() for v in row] for row in lex.cscorer.matrix]
    if again != e2e["cscorer"]:
        rep.append({"analysis": "get_scorer(force=True) after re-seeding", "args": {"runs": runs},
                    "first": "e2e.cscorer", "second": again})
    lex.get_scorer(runs=runs)            # no force: must leave the stored scorer alone
    if [[float(v).hex() for v in row] for row in lex.cscorer.matrix] != again:
        rep.append({"analysis": "get_scorer without force changed the stored scorer", "args": {"runs": runs}})
    # a library alignment after the progressive one on the SAME Alignments object == on a fresh one
    alm.align(method='library', iteration=True)
    used = column(alm, 'alignment')
    almf = Alignments(lex, ref='lexstatid')
    almf.align(method='library', iteration=True)
    if used != column(almf, 'alignment'):
        rep.append({"analysis": "Alignments.align(library) after align(progressive) vs fresh Alignments object",
                    "args": "lexstatid", "first": column(almf, 'alignment'), "second": used})
    # the clusterings of the much-used LexStat object == those of a fresh object
    random.seed(seed)
    lexf = LexStat(path)
    random.seed(seed)
    lexf.get_scorer(runs=runs)
    for ref, kw in CLUSTER_CALLS[:4]:
        lexf.cluster(override=True, **kw)
        if column(lexf, ref) != e2e[ref]:
            rep.append({"analysis": "cluster on a used LexStat object vs a fresh one", "args": kw,
                        "first": column(lexf, ref), "second": e2e[ref]})
    # cluster(X); cluster(X + option); cluster(X): the third result must be the first (optional settings of one
    # call must not persist on the object)
    e2e["option_histories"] = []
    for base_kw, opt in OPTION_HISTORIES:
        try:
            lexf.cluster(override=True, **base_kw)
            r1 = column(lexf, base_kw["ref"])
            lexf.cluster(override=True, **dict(base_kw, **opt))
            r2 = column(lexf, base_kw["ref"])
            lexf.cluster(override=True, **base_kw)
            r3 = column(lexf, base_kw["ref"])
        except ImportError:
            continue
        except Exception as e:
            rep.append({"analysis": "cluster(X); cluster(X + option); cluster(X) raised %s: %s" % (type(e).__name__, e),
                        "args": {"X": base_kw, "option": _jsonable_kw(opt)}})
            continue
        e2e["option_histories"].append([_jsonable_kw(opt), r2])
        if r3 != r1:
            rep.append({"analysis": "cluster(X); cluster(X + option); cluster(X): the third result differs from the first",
                        "args": {"X": base_kw, "option": _jsonable_kw(opt)}, "first": r1, "second": r3})
    e2e["keyword_sweep"] = keyword_sweep(path, seed, runs)
    hres, hbad = object_histories(lex, seed, 6 if full else 3)
    e2e["object_histories"] = hres
    rep.extend(hbad)
    # 17 re-runs, 5 fresh-object comparisons, nulld re-run, 3 Partial re-runs, the history steps, the function repeats
    out["repeat_checked"] = 26 + len(hres) + 2 * len(fres)
    out["e2e"], out["repeat"] = e2e, rep
    return out


def worker_main(argv):
    try:
        return _worker_main(argv)
    except BaseException as e:                       # fd 2 is closed below: leave the reason where the parent reads it
        import traceback
        with open(argv[1] + ".err", "w", encoding="utf8") as f:
            f.write("%s: %s\n%s" % (type(e).__name__, e, traceback.format_exc()[-3000:]))
        raise


def _worker_main(argv):
    spec = json.load(open(argv[0], encoding="utf8"))
    import logging
    devnull = os.open(os.devnull, os.O_WRONLY)
    os.dup2(devnull, 2)                              # progress bars, converter log lines
    import lingpy  # noqa
    logging.getLogger("lingpy").setLevel(logging.CRITICAL)
    res = {"hashseed": os.environ.get("PYTHONHASHSEED"), "lingpy": os.path.abspath(lingpy.__file__), "datasets": {}}
    for name, path in spec["datasets"]:
        try:
            res["datasets"][name] = pipeline(path, spec["seed"], spec["runs"], spec["full"])
        except Exception as e:
            import traceback
            res["datasets"][name] = {"error": "%s: %s" % (type(e).__name__, e), "traceback": traceback.format_exc()[-2000:]}
    with open(argv[1], "w", encoding="utf8") as f:
        json.dump(res, f, ensure_ascii=False)
    return 0


# ----------------------------------------------------------------------------------
# rendering (parent process)
#
# Elaborating big literals is what costs time in Coq, not evaluating them: every distinct string
# of a case is written once (as its list of code points) in a table bound by a [let], occurrences
# are [T_ k]; numbers are binary Z literals converted by [N_] / [NL_] (a unary nat literal of an
# id like 1400 would be a 1400-node term).

class Ctx:
    def __init__(self):
        self.tab = {}

    def s(self, x):
        x = str(x)
        if x not in self.tab:
            self.tab[x] = len(self.tab)
        return "(T_ %d)" % self.tab[x]

    def strs(self, l):
        return "[" + "; ".join(self.s(x) for x in l) + "]"

    @staticmethod
    def n(k):
        k = int(k)
        assert k >= 0
        return "(N_ %d)" % k

    @staticmethod
    def nl(l):
        return "(NL_ [" + "; ".join(str(int(k)) for k in l) + "])" if l else "[]"

    def sdict(self, d):
        return "[" + "; ".join("(%s, %s)" % (self.s(k), self.nl(v)) for k, v in d) + "]"

    def wrap(self, body):
        lits = ["[" + "; ".join(str(ord(c)) for c in x) + "]" if x else "[]"
                for x, _ in sorted(self.tab.items(), key=lambda kv: kv[1])]
        return "(let T_ := tab_get [%s] in %s)%%Z" % ("; ".join(lits), body)


def lst(items):
    return "[" + "; ".join(items) + "]"


def zrows(m):
    return lst(["[" + "; ".join(str(int(v)) for v in row) + "]" for row in m])


class _Stream:
    """driver.run_stream component: cases are observations made in the subprocesses"""
    IMPORTS = IMPORTS

    def run_impl(self, case):
        return case["obs"]

    def jsonable(self, case, res=None):
        return {"dataset": case["dataset"], "hashseed": case["hashseed"], "path": case["path"],
                "kernel": self.name, "observation": case["obs"]}

    def nontrivial(self, case, res):
        return True

    def classify(self, case, res):
        return ["hashseed=%s" % case["hashseed"], "dataset=" + case["dataset"].split("_")[0]]


class WlStream(_Stream):
    name, case_type, code_fn = "wl", "wl_case", "wl_case_code"
    BITS = {0: "correspondence: rows/cols/_dict/_idx/_array/get_dict/get_list/concept order differ from the model",
            1: "rows or cols are not the strictly increasing enumeration under the total key (lower(x), x): "
               "the result depends on the set iteration order",
            2: "the concept order of the clustering loop is not the sorted enumeration of the concepts",
            5: "tie broken: the observed set iteration order is not an enumeration of the column's values"}

    def render(self, case, o):
        c = Ctx()
        body = "Build_wl_case " + " ".join([
            lst(["(%s, %s)" % (c.s(a), c.s(b)) for a, b in o["lower"]]),
            lst(["(Build_entry %s %s %s)" % (c.n(k), c.s(r), c.s(cc)) for k, r, cc in o["data"]]),
            c.strs(o["row_order"]), c.strs(o["col_order"]), c.strs(o["rows"]), c.strs(o["cols"]),
            lst(["(%s, %s)" % (c.s(r), c.sdict(d)) for r, d in o["dict"]]),
            c.sdict(o["idx"]),
            lst([c.nl(r) for r in o["array"]]),
            lst([c.sdict(d) for d in o["coldicts"]]),
            lst([c.nl(r) for r in o["collists"]]),
            c.sdict(o["concepts"])])
        return c.wrap(body)

    def nontrivial(self, case, o):
        low = [b for a, b in o["lower"]]
        return len(set(low)) < len(low)            # some names collide under case folding


class LexStream(_Stream):
    name, case_type, code_fn = "lex", "lex_case", "lex_case_code"
    BITS = {0: "correspondence: freqs keys/chars/rchars/duplicates/pairs differ from the model",
            1: "chars is not the sorted enumeration of the character set followed by the gap characters",
            2: "rchars is not the sorted enumeration of the suffix set",
            3: "the pairs of a language pair are not in sorted concept order",
            5: "tie broken: an observed set iteration order is not an enumeration of the expected set"}

    def render(self, case, o):
        c = Ctx()
        np_ = lambda p: "(%s, %s)" % (c.n(p[0]), c.n(p[1]))
        body = "Build_lex_case " + " ".join([
            c.strs(o["cols"]),
            lst([lst([c.strs(w) for w in t]) for t in o["words"]]),
            c.strs(o["chars_order"]), c.strs(o["rchars_order"]),
            lst([c.strs(t) for t in o["fkeys"]]),
            c.strs(o["chars"]), c.strs(o["rchars"]),
            lst([c.sdict(d) for d in o["dicts"]]),
            lst(["(%s, %s)" % (c.n(k), c.s(v)) for k, v in o["segs"]]),
            lst(["(%s, %s)" % (c.n(k), c.s(v)) for k, v in o["trans"]]),
            lst([c.nl(r) for r in o["collists"]]),
            lst(["(%s, %s)" % (c.n(k), "true" if v else "false") for k, v in o["dups"]]),
            lst(["(%s, %s)" % (np_(ij), c.strs(v)) for ij, v in o["inter"]]),
            lst(["(%s, %s)" % (np_(ij), lst([np_(q) for q in v])) for ij, v in o["pairs"]]),
            lst(["(%s, %s)" % (c.n(k), c.s(v)) for k, v in o["concept_of"]])])
        return c.wrap(body)

    def nontrivial(self, case, o):
        return any(v for k, v in o["dups"]) or len(o["chars"]) > 10


class RenumStream(_Stream):
    name, case_type, code_fn = "renum", "renum_case", "renum_case_code"
    BITS = {0: "correspondence: renumber column / converter differ from the model",
            1: "the converter keys are not the sorted enumeration of the source values",
            5: "tie broken: the observed set iteration order is not an enumeration of the source values"}

    def render(self, case, o):
        c = Ctx()
        return c.wrap("Build_renum_case %s %s %s %s" % (c.strs(o["vals"]), c.strs(o["order"]), c.strs(o["sources"]),
                                                       c.nl(o["col"])))


class ScorerStream(_Stream):
    name, case_type, code_fn = "scorer", "scorer_case", "scorer_case_code"
    BITS = {0: "correspondence: the scorer matrices are not what the fold of symmetric writes gives "
               "(a cell outside the written index pairs changed, or a written pair is not mirrored)",
            1: "the language-specific scorer (cscorer) is not symmetric",
            2: "the basic scorer (bscorer) is not symmetric"}

    def render(self, case, o):
        c = Ctx()
        return c.wrap("Build_scorer_case %s %s %s %s" % (c.strs(o["chars"]), lst([c.strs(t) for t in o["fkeys"]]),
                                                         zrows(o["b"]), zrows(o["c"])))

    def jsonable(self, case, res=None):
        j = _Stream.jsonable(self, case, res)
        o = case["obs"]
        n = len(o["c"])
        j["asymmetric_cells"] = [[a, b, o["chars"][a], o["chars"][b]] for a in range(n) for b in range(a)
                                 if o["c"][a][b] != o["c"][b][a]][:10]
        j["observation"] = {"chars": o["chars"], "fkeys": o["fkeys"], "matrices": "omitted (see e2e.cscorer)"}
        return j


class DstStream(_Stream):
    name, case_type, code_fn = "dst", "dst_case", "dst_case_code"
    IMPORTS = IMPORTS[:-1] + " Runtime.DeterminismDst."
    BITS = {0: "correspondence: wl2dst(wl, ref) is not the model's matrix (within 2^-40), for the concepts as enumerated "
               "or in another order",
            1: "the distance matrix of the tree calculation is not square / symmetric / zero on the diagonal",
            5: "tie broken: the reordered concepts are not the same set"}

    def render(self, case, o):
        from fractions import Fraction
        c = Ctx()
        rows = list(o["rows"])
        k = max(1, len(rows) // 3)
        other = list(reversed(rows[k:] + rows[:k]))            # rotated and reversed
        q = lambda h: "(%d # %d)%%Q" % Fraction(float.fromhex(h)).as_integer_ratio()
        body = "Build_dst_case %s %s %s %s" % (
            c.strs(rows), c.strs(other),
            lst([lst(["(%s, [%s])" % (c.s(cc), "; ".join(str(int(v)) for v in vals)) for cc, vals in d])
                 for d in o["dicts"]]),
            lst([lst([q(v) for v in row]) for row in o["matrix"]]))
        return c.wrap(body)

    def nontrivial(self, case, o):
        vals = {v for row in o["matrix"] for v in row}
        return len(vals) > 2                                    # more than {0, one distance}


STREAMS = [WlStream(), LexStream(), RenumStream(), ScorerStream(), DstStream()]


if __name__ == "__main__":
    assert sys.argv[1] == "--worker"
    sys.exit(worker_main(sys.argv[2:]))
