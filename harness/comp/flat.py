"""Component: flat (threshold) clustering.  Generator, implementation runner,
Gallina case rendering.  Used by C05 and C10."""
import copy
import itertools
import random
from fractions import Fraction as F

from ..lib import coqlit as L

IMPORTS = "From LV Require Import Common.Cases Cluster.Flat Cluster.FlatQ."
METHODS = ["upgma", "single", "complete", "ward"]
COQ_METH = {"upgma": "Upgma", "single": "Single", "complete": "Complete", "ward": "Upgma"}

GRID = [F(k, 8) for k in range(0, 17)]
INF = F(2 ** 40)
THRESH = [F(3, 10), F(45, 100), F(55, 100), F(0), F(1, 2), F(1), F(3, 4), F(1, 4), F(2), F(-1, 8), F(7, 20)]


def gen_matrix(rng, n):
    kind = rng.choice(["grid", "ties", "01", "coarse", "additive", "neartie", "neartie", "negative", "inf", "int"])
    if kind == "grid":
        vals = GRID
    elif kind == "ties":
        vals = rng.sample(GRID, 2)
    elif kind == "01":
        vals = [F(0), F(1)]
    elif kind == "coarse":
        vals = [F(0), F(1, 2), F(1)]
    elif kind == "int":
        vals = [F(k) for k in range(0, 8)]               # raw counts: whole numbers (handed over as Python ints / int arrays)
    elif kind == "negative":
        vals = [F(k, 4) for k in range(-3, 6)]          # negative entries are legal cells of a symmetric matrix
    elif kind == "inf":
        # undefined distances: the implementation gets float('inf'), the model the sentinel 2^40, which is
        # far above every finite cell, every average containing it and every threshold (same decisions)
        vals = [F(0), F(1, 2), F(1), F(1, 4), INF, INF]
    elif kind == "neartie":
        # near-ties: grid values plus tiny DYADIC perturbations (so that every float sum stays exact and
        # quotients remain separated by far more than an ulp): catches tolerance-based tie-breaking
        base = rng.sample(GRID[1:], 2)
        eps = F(1, 2 ** rng.choice([21, 21, 24, 30]))
        vals = [b + k * eps for b in base for k in (0, 1, 2)]
    else:
        vals = [F(k, 4) for k in range(1, 8)]
    m = [[F(0)] * n for _ in range(n)]
    for i in range(n):
        for j in range(i + 1, n):
            m[i][j] = m[j][i] = rng.choice(vals)
    return kind, m


def gen_case(rng, max_n):
    n = rng.choice([1, 2, 2, 3, 3, 4, 4, 5, 5, 6, 7, 8][: max(3, max_n + 4)])
    n = min(n, max_n)
    meth = rng.choice(METHODS)
    kind, m = gen_matrix(rng, n)
    while meth == "ward" and kind == "neartie":
        # 'ward' squares the distances: the square of a near-tie value needs more than 53 bits
        kind, m = gen_matrix(rng, n)
    entries = sorted({x for r in m for x in r if x != INF})
    def thr():
        c = rng.random()
        if c < 0.45 and entries:
            return rng.choice(entries)          # threshold equal to a matrix entry
        if c < 0.8:
            return rng.choice(THRESH)           # decimal thresholds, passed as decimals
        return rng.choice(GRID)
    t1, t2 = sorted([thr(), thr()])
    return {"method": meth, "n": n, "kind": kind, "matrix": m, "t1": t1, "t2": t2,
            "container": rng.choice(["list", "list", "numpy"]),
            "taxa_container": rng.choice(["list", "list", "tuple", "str"]), "int_cells": rng.random() < 0.6,
            "names": rng.choice(["plain", "odd"]), "int_thr": rng.random() < 0.3,
            "entry": rng.choice(["flat_cluster", "flat_upgma"])}


def threshold_search(case):
    """Variants of a case over the same matrix: every pair of thresholds taken from the cells, the midpoints between
    neighbouring cells and the values just outside (the failing-input search of C05/C10 after a correspondence break)."""
    cells = sorted({x for r in case["matrix"] for x in r if x != INF})
    cand = set(cells)
    for a, b in zip(cells, cells[1:]):
        cand.add((a + b) / 2)
    if cells:
        cand |= {cells[0] - 1, cells[-1] + 1}
    cand = sorted(cand)[:14]
    for i, a in enumerate(cand):
        for b in cand[i:]:
            yield dict(case, t1=a, t2=b, int_thr=False)


def deep_cases(n=24):
    """Chain matrices (d(i, i+1) = 0, everything else 1) merged into one cluster by n - 1 successive merges, run
    under a recursion limit just above the current depth (see run_impl): the implementation either raises
    RecursionError (skipped) or returns the model's partition."""
    m = [[F(0) if abs(i - j) <= 1 else F(1) for j in range(n)] for i in range(n)]
    for meth, t in (("single", F(1, 2)), ("complete", F(1)), ("upgma", F(1)), ("single", F(0))):
        for limit in (8, 14):
            yield {"method": meth, "n": n, "kind": "chain", "matrix": m, "t1": t, "t2": F(1),
                   "container": "list", "taxa_container": "list", "names": "plain", "int_thr": False,
                   "entry": "flat_cluster", "reclimit": limit}


def exhaustive_cases(n_max=4, vals=(F(0), F(1, 2), F(1)), thrs=(F(0), F(3, 10), F(1, 2), F(1))):
    for n in range(1, n_max + 1):
        pairs = [(i, j) for i in range(n) for j in range(i + 1, n)]
        for combo in itertools.product(vals, repeat=len(pairs)):
            m = [[F(0)] * n for _ in range(n)]
            for (i, j), v in zip(pairs, combo):
                m[i][j] = m[j][i] = v
            for meth in ("upgma", "single", "complete"):
                for a in range(len(thrs)):
                    for b_ in range(a, len(thrs)):
                        if b_ == a and a % 2:
                            continue
                        yield {"method": meth, "n": n, "kind": "exh", "matrix": m, "t1": thrs[a], "t2": thrs[b_]}


def run_impl(case):
    """Run the current /repo implementation; returns canonical outputs."""
    from lingpy.algorithm import clustering
    fm = [[float("inf") if x == INF else float(x) for x in r] for r in case["matrix"]]
    meth = case["method"]
    n = case["n"]
    if case.get("names") == "odd":      # names with blanks, case variants, digits, non-ASCII letters
        pool = ["Old High German", "Zu\u0308rich", "a", "A", "Z\u00fcrich", "t 1", "t_1", "Éwé", "10", "x.y", "Ж", "b'c", "0", "T1", "t1 ", "n/a"]
        taxa = pool[:n] if n <= len(pool) else pool + ["t%d" % i for i in range(n - len(pool))]
    else:
        taxa = ["t%d" % i for i in range(n)]

    whole = all(x.denominator == 1 and x != INF for r in case["matrix"] for x in r)

    def mk():
        if whole and case.get("int_cells"):
            # a matrix of whole numbers as Python ints or as an integer numpy array (averages must not be truncated)
            im = [[int(x) for x in r] for r in case["matrix"]]
            if case.get("container") == "numpy":
                import numpy as np
                return np.array(im, dtype=int)
            return im
        if case.get("container") == "numpy":
            import numpy as np
            return np.array(fm, dtype=float)
        return copy.deepcopy(fm)

    def thr(t):     # thresholds that are whole numbers are sometimes passed as int (0, 1, 2)
        return int(t) if case.get("int_thr") and t.denominator == 1 else float(t)
    def fc(t, m, *a, **k):
        # the dedicated entry point flat_upgma(threshold, matrix, taxa, revert) in half of the upgma cases
        if meth == "upgma" and case.get("entry") == "flat_upgma":
            return clustering.flat_upgma(t, m, *a, **k)
        return clustering.flat_cluster(meth, t, m, *a, **k)
    if case.get("reclimit"):
        # the agglomerators recurse once per merge: with a recursion limit just above the current depth the
        # implementation may raise RecursionError (no result: the case is skipped), but whatever it RETURNS
        # must still be the partition of the model
        import sys
        from ..lib import driver
        f, depth = sys._getframe(), 0
        while f:
            depth, f = depth + 1, f.f_back
        old_limit = sys.getrecursionlimit()
        try:
            sys.setrecursionlimit(depth + case["reclimit"])
            try:
                out = fc(thr(case["t1"]), mk())
            except RecursionError:
                raise driver.Skip("RecursionError under a lowered recursion limit")
        finally:
            sys.setrecursionlimit(old_limit)
    else:
        out = fc(thr(case["t1"]), mk())
    rev = fc(thr(case["t1"]), mk(), revert=True)
    tc = case.get("taxa_container", "list")     # the names as list, tuple or (one-letter names) string
    if tc == "str" and n <= 26:
        taxa = [chr(ord("a") + i) for i in range(n)]
        taxa_arg = "".join(taxa)
    elif tc == "tuple":
        taxa_arg = tuple(taxa)
    else:
        taxa_arg = taxa
    tx = fc(thr(case["t1"]), mk(), taxa_arg)
    tidx = lambda i: taxa.index(i) if i in taxa else n + 7      # a member that is no given name: no item of the model
    out2 = fc(thr(case["t2"]), mk())
    res = {
        "out": [(int(k), [int(i) for i in v]) for k, v in out.items()],
        "rev": [(int(i), int(k)) for i, k in rev.items()],
        "taxa": [(int(k), [tidx(i) for i in v]) for k, v in tx.items()],
        "out2": [(int(k), [int(i) for i in v]) for k, v in out2.items()],
    }
    return res


def clusters_lit(cl):
    return L.lst([L.pair(L.nat(k), L.natlist(v)) for k, v in cl])


def render(case, res):
    return L.record("flat_case", [
        L.b(case["method"] == "ward"),
        COQ_METH[case["method"]],
        L.q(case["t1"]),
        L.qmat(case["matrix"]),
        clusters_lit(res["out"]),
        L.lst([L.pair(L.nat(i), L.nat(k)) for i, k in res["rev"]]),
        clusters_lit(res["taxa"]),
        L.q(case["t2"]),
        clusters_lit(res["out2"]),
    ])


BITS = {0: "correspondence: model output differs from implementation output",
        1: "partition: an item is missing/duplicated, or revert output inconsistent",
        2: "terminal: two returned clusters have linkage <= threshold",
        3: "linkage clause: single!=components or complete diameter > threshold",
        4: "refinement: a cluster at t1 is split at t2 >= t1"}


def nontrivial(case, res):
    """A case is non-trivial if at least one merge happened and at least two clusters remain
    at one of the two thresholds."""
    n = case["n"]
    return any(1 < len(o) < n for o in (res["out"], res["out2"]))


def jsonable(case, res=None):
    c = dict(case)
    c["matrix"] = [[str(x) for x in r] for r in case["matrix"]]
    c["t1"], c["t2"] = str(case["t1"]), str(case["t2"])
    if res is not None:
        c["impl"] = res
    return c


def from_json(c):
    case = dict(c)
    case["matrix"] = [[F(x) for x in r] for r in c["matrix"]]
    case["t1"], case["t2"] = F(c["t1"]), F(c["t2"])
    case.pop("impl", None)
    return case


def shrink(case):
    n = case["n"]
    m = case["matrix"]
    if n > 1:
        for drop in range(n):
            keep = [i for i in range(n) if i != drop]
            c = dict(case)
            c["n"] = n - 1
            c["matrix"] = [[m[i][j] for j in keep] for i in keep]
            yield c
    for i in range(n):
        for j in range(i + 1, n):
            for v in (F(0), F(1)):
                if m[i][j] != v:
                    c = dict(case)
                    mm = [list(r) for r in m]
                    mm[i][j] = mm[j][i] = v
                    c["matrix"] = mm
                    yield c
    if case["t2"] != case["t1"]:
        c = dict(case)
        c["t2"] = case["t1"]
        yield c


def classify(case, res):
    return ["method=" + case["method"], "n=%d" % case["n"], "kind=" + case["kind"],
            "container=" + case.get("container", "list"), "taxa_container=" + case.get("taxa_container", "list"), "int_cells=%s" % bool(case.get("int_cells")), "names=" + case.get("names", "plain"),
            "entry=" + (case.get("entry", "flat_cluster") if case["method"] == "upgma" else "flat_cluster"),
            "clusters_t1=%d" % len(res["out"]),
            "thr_is_entry" if any(case["t1"] == x for r in case["matrix"] for x in r) else "thr_not_entry"]


def model_expr(case, res, rundir):
    from ..lib import coqrun
    m = L.qmat(case["matrix"])
    if case["method"] == "ward":
        m = "(ward_matrix %s)" % m
    return coqrun.eval_expr(rundir, "replay_model", IMPORTS,
                            "flat_cluster %s %s %s" % (COQ_METH[case["method"]], L.q(case["t1"]), m))
