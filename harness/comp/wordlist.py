"""Component: Wordlist views (C12) and shared-cognate distances / presence-absence patterns (C17).
Generator, implementation runner, Gallina rendering of (input, history, everything observed)."""
import os
import random
import shutil
from fractions import Fraction as F

from ..lib import coqlit as L
from ..lib import env

IMPORTS = ("From LV Require Import Common.Cases Wordlist.Rows Wordlist.Index Wordlist.Views Wordlist.Renumber "
           "Wordlist.Dist Wordlist.Paps Wordlist.WordlistExec Wordlist.WordlistCheck.\n"
           "Local Open Scope Z_scope.")
CASE_TYPE = "wl_case"
CODE_FN = "wl_case_code"

BITS = {0: "correspondence: model output differs from implementation output",
        1: "array: an id is missing/duplicated/misplaced in _array, or under the wrong concept lines / language column",
        2: "views: get_list/get_dict/get_entries/iter_rows/len do not list exactly the matching rows",
        3: "etymdict: an id is not listed under exactly the cognate ids and language column it carries",
        4: "rows/cols: not the distinct concepts/languages in (case-folded, raw) order",
        5: "alias: a column is not reachable by a configured spelling",
        6: "renumber: equal values to different integers, different values to equal ones, or wrong sign",
        7: "distances: not symmetric / non-zero diagonal / outside [0,1] / not 1 - shared/attested",
        8: "paps: a pattern entry is not present/missing/absent as the rows say"}

# ----------------------------------------------------------------------------------------- pools
LANGS = ["Ab", "aB", "ab", "AB", "b", "B", "German", "german", "GERMAN", "Éire", "éire", "Zulu",
         "zulu", "Xhosa", "Çat", "çat", "a b", "Z",
         # not NFC-normal (base letter + combining mark), and a pair that differs by normalisation form only
         "Gua\u0303a", "Gu\u00e3a", "Ko\u0308ln", "E\u0301ire"]
CONCEPTS = ["hand", "Hand", "HAND", "foot", "Foot", "arm", "Über", "über", "Ärm", "I", "i", "eye",
            "the eye", "Eye", "cafe\u0301", "caf\u00e9", "o\u0308l", "ma\u0303o"]
# values that differ by unicode normalisation form only are DIFFERENT values (decomposed first, composed second)
TWINS = [("pe\u0301re", "p\u00e9re"), ("ma\u0303o", "m\u00e3o"), ("o\u0308", "\u00f6")]
IPA = ["", "hant", "hand", "fus", "fut", "a", "A", "æ", "bɔ", "x y", "10", "0", "1", TWINS[0][0], TWINS[0][1]]
TOK = ["h", "a", "n", "t", "ɔ", "f", "u"]
SPELL = {"doculect": ["doculect", "language", "taxa", "taxon"],
         "concept": ["gloss", "concept", "concepts"],
         "cogid": ["cogid"], "cogids": ["cogids"], "tokens": ["tokens", "tokenized_counterpart", "ipatokens"],
         "iso": ["iso", "isocode"], "ipa": ["ipa"], "note": ["note"], "langid": ["langid"],
         "partial_ids": ["partialid", "partialids", "partial_ids"]}
META_KEYS = ["taxa", "doculect", "concepts", "language", "gloss", "DOCULECT", "TAXA", "cogid", "note", "mymeta",
             "ipa", "concept"]
DIM_SPELL = [a for c in ("doculect", "concept") for x in SPELL[c] for a in (x, x.upper())]
FILE_TYPES = {"cogid": "int", "cogids": "ints", "tokens": "strs", "partial_ids": "ints", "langid": "str"}


def spelling(rng, canon):
    s = rng.choice(SPELL.get(canon, [canon]))
    return s.upper() if rng.random() < 0.3 else s


def gen_value(rng, kind, cset=None):
    if kind == "ipa":
        return rng.choice(IPA)
    if kind == "cogid":
        c = rng.random()
        if c < 0.8:
            return rng.choice(cset)
        if c < 0.88:
            return 0
        if c < 0.94:
            return ""
        return rng.choice(["a", "b", "1", TWINS[1][0], TWINS[1][1]])
    if kind == "ints":
        return [rng.choice(cset) for _ in range(rng.choice([0, 1, 1, 2, 2, 3]))]
    if kind == "strs":
        return [rng.choice(TOK) for _ in range(rng.choice([0, 1, 2, 3]))]
    if kind == "note":
        return rng.choice(["", "x", "y", "X", 3, "3", TWINS[2][0], TWINS[2][1]])
    if kind == "conceptid":                                   # class int: a failed int() leaves the string
        return rng.choice([1, 22, 7, "", "x1", "1 2", "-3"])
    if kind == "sonars":                                      # class lambda x: [int(s) for s in x.split()]
        return rng.choice([[], [1], [7, 5, 1], "a 1", "1  2", [3, 3]])
    if kind == "numbers":                                     # class lambda x: x.split()
        return rng.choice([[], ["1.A"], ["2.B", "1.A"], "x  y"])
    raise ValueError(kind)


def file_string(c):
    """a cell as it is written into a file (tab-free, stripped, blank-separated lists)"""
    t = " ".join(str(x) for x in c) if isinstance(c, list) else str(c)
    return t.strip()


_RC_KINDS = {}


def rc_kinds():
    """spelling -> kind, mirror of parser.read_conf's classD (later lines win), from the translator's parse"""
    if not _RC_KINDS:
        from ..translate import wordlist_rc
        for name, aliases, k in wordlist_rc.parse(os.path.join(env.SRC, wordlist_rc.RC)):
            for a in [name] + aliases:
                _RC_KINDS[a.lower()] = _RC_KINDS[a.upper()] = k
    return _RC_KINDS


def py_conv(kind, s):
    """what the harness expects a file cell to become (mirror of Rows.conv; the implementation is compared
    with the Coq model, this copy only provides the typed rows the generator works with)"""
    def toint(x):
        try:
            return int(x)
        except ValueError:
            return None
    if kind == "KInt":
        return s if toint(s) is None else toint(s)
    if kind == "KInteger":
        return 0 if not s else (s if toint(s) is None else toint(s))
    if kind == "KInts":
        ts = [toint(t) for t in s.split()]
        return s if None in ts else ts
    if kind == "KStrs":
        return s.split()
    return s


def gen_case(rng, size=4, source=None):
    source = source or ("file" if rng.random() < 0.06 else "dict")
    nl = rng.choice([1, 2, 2, 3, 3, 4][: size + 2])
    nc = rng.choice([1, 2, 2, 3, 3, 4][: size + 2])
    langs = rng.sample(LANGS, nl)
    if rng.random() < 0.4 and nl >= 2:                      # force a case-folding collision
        langs[1] = rng.choice([langs[0].upper(), langs[0].lower(), langs[0].swapcase()])
        langs = list(dict.fromkeys(langs))
    if rng.random() < 0.12 and nl >= 2 and source != "file":   # two names that differ by normalisation form only
        langs[:2] = ["Gua\u0303a", "Gu\u00e3a"]
        langs = list(dict.fromkeys(langs))
    concepts = rng.sample(CONCEPTS, nc)
    if rng.random() < 0.3 and nc >= 2:
        concepts[1] = rng.choice([concepts[0].upper(), concepts[0].lower(), concepts[0].swapcase()])
        concepts = list(dict.fromkeys(concepts))
    if source == "file":          # read_qlc strips the cells and NFC-normalises the file
        import unicodedata
        langs = [l for l in langs if l.strip() == l and unicodedata.normalize("NFC", l) == l] or ["Ab"]
        concepts = [c for c in concepts if c.strip() == c and unicodedata.normalize("NFC", c) == c] or ["hand"]
    cols = ["doculect", "concept", "ipa", "cogid"]
    for extra, p in (("cogids", 0.45), ("tokens", 0.3), ("note", 0.3)):
        if rng.random() < p:
            cols.append(extra)
    if source == "file":                                      # more typed columns of wordlist.rc
        for extra, p in (("conceptid", 0.4), ("sonars", 0.35), ("numbers", 0.3), ("langid", 0.2)):
            if rng.random() < p:
                cols.append(extra)
    rng.shuffle(cols)
    header = [spelling(rng, c) for c in cols]
    weights = rng.choice([[3, 5, 2, 1], [1, 6, 2, 0], [5, 4, 1, 0], [0, 6, 3, 1]])
    slots = []
    for ci, c in enumerate(concepts):
        for l in langs:
            k = rng.choices([0, 1, 2, 3], weights)[0]
            slots += [(ci, c, l)] * k
    if not slots:
        slots = [(0, concepts[0], langs[0])]
    rng.shuffle(slots) if rng.random() < 0.7 else None
    ids = rng.sample(range(1, 90), len(slots))
    if rng.random() < 0.3:
        ids.sort()
    if rng.random() < 0.12:                                   # huge row ids (beyond 32 bit)
        for i in rng.sample(range(len(ids)), rng.choice([1, min(2, len(ids))])):
            ids[i] = rng.choice([2 ** 31 - 1, 2 ** 31, 2 ** 31 + 5, 2 ** 32 + 7, 2 ** 33 + 1, 2 ** 40 + 3]) + 16 * i
    cross = rng.random() < 0.35                               # cognate sets spanning several concepts
    rows = []
    for rid, (ci, c, l) in zip(ids, slots):
        cset = [1, 2, 3] if cross else [ci * 10 + 1, ci * 10 + 2, ci * 10 + 3]
        if rng.random() < 0.1:
            cset = cset + [99]
        cells = []
        for col in cols:
            if col == "doculect":
                cells.append(l)
            elif col == "concept":
                cells.append(c)
            elif col == "cogids":
                cells.append(gen_value(rng, "ints", cset))
            elif col == "tokens":
                cells.append(gen_value(rng, "strs"))
            elif col == "cogid":
                cells.append(gen_value(rng, "cogid", cset))
            elif col == "langid":
                cells.append(rng.choice(["1", "l2", ""]))
            elif col == "note":
                v = gen_value(rng, "note")
                cells.append(str(v) if source == "file" else v)
            else:
                cells.append(gen_value(rng, col))
        rows.append([rid, cells])
    prefer = None
    if source == "dict" and len(rows) >= 2 and rng.random() < 0.15:
        # both spellings of a twin in one column, which the history is then likely to renumber
        prefer = rng.choice([c for c in ("ipa", "cogid", "note") if c in cols])
        a, b = rng.sample(range(len(rows)), 2)
        tw = rng.choice(TWINS)
        rows[a][1][cols.index(prefer)], rows[b][1][cols.index(prefer)] = tw[0], tw[1]
    if source == "file":                                      # read_qlc NFC-normalises every line
        import unicodedata

        def nfc(v):
            return [nfc(x) for x in v] if isinstance(v, list) else (
                unicodedata.normalize("NFC", v) if isinstance(v, str) else v)
        rows = [[rid, [nfc(c) for c in cells]] for rid, cells in rows]
        # what is written into the file, and what QLCParser makes of it (class of the column)
        raw = [[rid, [file_string(c) for c in cells]] for rid, cells in rows]
        kd = rc_kinds()
        rows = [[rid, [py_conv(kd.get(h.lower(), "KStr"), x) for h, x in zip(header, strs)]] for rid, strs in raw]
    kind = "valid"
    c = rng.random()
    if source == "dict" and c < 0.03:
        rows.insert(rng.randrange(len(rows) + 1), [-rng.randrange(1, 50), list(rows[0][1])])
        kind = "negative-id"
    elif source == "dict" and c < 0.05:
        rows[rng.randrange(len(rows))][1].append("x")
        kind = "bad-row-length"
    elif source == "dict" and c < 0.065:
        header[cols.index("ipa")] = rng.choice(["Ipa", "iPA"])
        kind = "mixed-case-header"
    elif source == "dict" and c < 0.08 and "note" in cols:
        header[cols.index("note")] = rng.choice(["taxa", "LANGUAGE", "gloss"])
        kind = "duplicate-canonical"
    case = {"source": source, "kind": kind, "cols": cols, "header": header, "rows": rows,
            "raw": raw if source == "file" else None,
            "row": "concept", "col": "doculect", "meta": [],
            # the Python container of every multi-valued cell of this case (dictionary source only)
            "multi": rng.choice(["list", "list", "tuple", "tuple", "basictypes"]) if source == "dict" else "list"}
    if rng.random() < 0.3:                    # the two dimensions named by an alias, in lower or upper case
        case["row"], case["col"] = spelling(rng, "concept"), spelling(rng, "doculect")
        if rng.random() < 0.06:
            case["row" if rng.random() < 0.5 else "col"] = rng.choice(["zzz", "Concept", "Taxa"])
    if rng.random() < 0.3:                    # metadata whose keys collide with column aliases
        keys = rng.sample(META_KEYS if source == "dict" else ["taxa", "doculect", "concepts", "language", "mymeta"],
                          rng.choice([1, 1, 2]))
        for k in keys:
            if (source == "file" and k != "taxa") or (source == "dict" and rng.random() < 0.3):
                case["meta"].append([k, rng.choice(["x", "some text", "Zulu"])])
            else:
                case["meta"].append([k, rng.sample(LANGS[:14], rng.choice([1, 2, 3]))])
    ops, cols_after, news, focus = gen_ops(rng, cols, rows, source, prefer=prefer)
    case["ops"] = ops
    case["focus"] = focus
    case["q0"] = gen_queries(rng, cols, [], focus=focus, case=case)
    # after every operation all views are read again; the steps before the last one use light queries
    case["qs"] = [gen_queries(rng, cols_after[i], news[i], focus=focus, light=(i < len(ops) - 1), case=case)
                  for i in range(len(ops))]
    return case


def gen_queries(rng, cols, new, focus=(), light=False, case=None):
    """focus: [(column, spelling)] - columns the history is going to change; they are read through the SAME
    spelling before and after every step (a stale cache inside the implementation would show)."""
    pick = [c for c in cols if c not in ("doculect", "concept")]
    rng.shuffle(pick)
    n_ent = 0 if light else (2 if rng.random() < 0.25 else 1)
    ent = [""] + [spelling(rng, c) for c in (new + pick)[:n_ent]]
    for c, sp in focus:
        if c in cols and sp not in ent:
            ent.append(sp)
    if not light and rng.random() < 0.2:
        ent.append(spelling(rng, rng.choice(["doculect", "concept"])))
    if not light and rng.random() < 0.15:
        ent.append(rng.choice(["zzz", "ISO", "Cogid"]))
    refs = [spelling(rng, "cogid")]
    for c in cols:
        if c in ("cogids", "partial_ids", "newid", "cogidid") and rng.random() < (0.3 if light else 0.8):
            refs.append(spelling(rng, c))
    for c, sp in focus:                      # a changed cognate-id column is also read as a reference column
        if c in cols and c in ("cogid", "cogids", "newid", "cogidid") and sp not in refs and rng.random() < 0.7:
            refs.append(sp)
    items = []
    for c in cols:
        for s in SPELL.get(c, [c]):
            items += [s, s.upper()]
    rng.shuffle(items)
    items = items[:(2 if light else 5)] + [spelling(rng, n) for n in new] + [sp for c, sp in focus if c in cols]
    if not light and rng.random() < 0.3:
        items.append(rng.choice(["zzz", "iso", "Cogid", "Taxa", ""]))
    it = [c for c in cols if rng.random() < (0.3 if light else 0.6)]
    if not light and rng.random() < 0.1:
        it.append(rng.choice(["language", "DOCULECT", "zzz"]))
    dst = [(refs[0], False)] if light else [(refs[0], False), (refs[0], True)]
    paps = [(refs[0], -1)] if light else [(refs[0], rng.choice([0, -1, 7])), (refs[0], -1)]
    if len(refs) > 1:
        paps.append((refs[-1], -1))
        if rng.random() < 0.3:
            dst.append((refs[-1], rng.random() < 0.5))
    # attribute access wl.<s> and keyword views get_list(s=name): spellings of the two dimensions,
    # metadata keys, a column, an unknown name
    langs = sorted({r[1][case["cols"].index("doculect")] for r in case["rows"]}) if case else []
    concs = sorted({r[1][case["cols"].index("concept")] for r in case["rows"]}) if case else []
    attrs = rng.sample(DIM_SPELL, 1 if light else 3) + [k for k, _ in (case["meta"] if case else [])]
    if not light:
        attrs.append(spelling(rng, rng.choice(pick)) if pick else "ipa")
        if rng.random() < 0.3:
            attrs.append(rng.choice(["zzz", "mymeta", "ISO"]))
    kws = []
    for sp in rng.sample(DIM_SPELL, 1 if light else 2):
        names = langs if sp.lower() in SPELL["doculect"] else concs
        if names:
            kws.append((sp, rng.choice(names) if rng.random() < 0.9 else "Nowhere"))
    if not light and rng.random() < 0.2:
        kws.append((rng.choice(["cogid", "zzz", "IPA"]), rng.choice(langs or ["x"])))
    return {"entries": ent, "refs": refs, "items": items, "iter": it, "dst": dst, "paps": paps,
            "attr": rng.random() < 0.5, "attrs": attrs, "kws": kws}


def key_of(v):
    return ("L",) + tuple(v) if isinstance(v, list) else ("A", type(v).__name__, v)


NEWVALS = {"cogid": [0, 4, 5, 77, "", "a", TWINS[1][0], TWINS[1][1]], "ipa": ["", "!x", "zz", "hant", "a", TWINS[0][0], TWINS[0][1]],
           "note": ["", "!", "x", "zz", 3, TWINS[2][0], TWINS[2][1]],
           "cogids": [[], [1], [5, 5], [2, 77]], "tokens": [[], ["h"], ["u", "f"]], "newid": [0, 1, 9], "cogidid": [0, 1, 9]}


class _Hist:
    """bookkeeping while a history is generated: column names and values after every step"""

    def __init__(self, rng, cols, rows, source):
        self.rng, self.source = rng, source
        self.cols = list(cols)
        self.ids = [r[0] for r in rows if r[0] > 0]
        self.state = {c: [r[1][i] for r in rows if r[0] > 0] for i, c in enumerate(cols)}
        self.ops, self.cols_after, self.news, self.focus = [], [], [], []
        self.spell = {}

    def sp(self, col):                        # one spelling per column for the whole history
        if col not in self.spell:
            self.spell[col] = spelling(self.rng, col)
        return self.spell[col]

    def focus_on(self, col):
        if col not in [c for c, _ in self.focus]:
            self.focus.append((col, self.sp(col)))

    def push(self, op, new=()):
        self.ops.append(op)
        for n in new:
            if n not in self.cols:
                self.cols.append(n)
        self.cols_after.append(list(self.cols))
        self.news.append([n for n in new])

    def renum(self, src, tgt, override, fixed_spelling=False):
        name = (tgt or src + "id").lower()
        if name in self.cols and not override:
            return False                                      # would ask the interactive question
        if name in ("doculect", "concept") or src not in self.cols:
            return False
        source = self.sp(src) if fixed_spelling else spelling(self.rng, src)
        if not tgt and source != source.lower():              # target = source + 'id' keeps the spelling
            source = source.lower()
        vals = self.state[src]
        strs = sorted(set(str(v) for v in vals))
        conv = {s: i + 1 for i, s in enumerate(strs)}
        if "" in conv:
            conv[""] = 0
        new = [] if name in self.cols else [name]
        self.state[name] = [conv[str(v)] for v in vals]
        self.push({"kind": "renum", "source": source, "target": tgt, "override": override}, new)
        return True

    def add(self, entry, src, override, table=None, default=None):
        rng = self.rng
        name = entry.lower()
        if name in self.cols and not override:
            return False
        vals = self.state[src]
        distinct = list({key_of(v): v for v in vals}.values())
        if table is None:
            kind = rng.choice(["ints", "strs", "int", "str", "mixed"])
            table = []
            for v in distinct:
                if kind == "int" or (kind == "mixed" and rng.random() < 0.5):
                    nv = rng.choice([0, 1, 2, 3, 5])
                elif kind == "ints":
                    nv = [rng.choice([1, 2, 3, 4]) for _ in range(rng.choice([0, 1, 2, 2, 3]))]
                elif kind == "strs":
                    nv = [rng.choice(TOK) for _ in range(rng.choice([0, 1, 2]))]
                else:
                    nv = rng.choice(["", "p", "q", "P", "r s"])
                if rng.random() < 0.9:
                    table.append([v, nv])
            default = rng.choice([0, "", "d", [7]])
        new = [] if name in self.cols else [name]
        t = {key_of(a): b for a, b in table}
        self.state[name] = [t.get(key_of(v), default) for v in vals]
        self.push({"kind": "add", "entry": entry, "source": spelling(rng, src), "table": table,
                   "default": default, "override": override}, new)
        return True

    def set(self, col, value=None, rid=None, spelled=None):
        rng = self.rng
        k = rng.randrange(len(self.ids))
        rid = self.ids[k] if rid is None else rid
        if value is None:
            value = rng.choice(NEWVALS.get(col, ["", "x", 1]))
        if col in self.state and rid in self.ids:
            self.state[col] = list(self.state[col])
            self.state[col][self.ids.index(rid)] = value
        self.push({"kind": "set", "id": rid, "col": spelled or self.sp(col), "value": value})
        return True


def gen_ops(rng, cols, rows, source, prefer=None):
    """The history: add_entries / renumber / wl[id, col] = v steps.  Returns (ops, column names after every
    step, new column names of every step, focus columns)."""
    h = _Hist(rng, cols, rows, source)
    free = [c for c in cols if c not in ("doculect", "concept")]
    scen = rng.random()
    if not h.ids:
        return [], [], [], []
    if prefer and rng.random() < 0.75:                        # renumber the column that holds the twin values
        h.renum(prefer, rng.choice(["", "newid"]), False)
        scen = 0.5 + scen / 2                                 # then a random history
    if scen < 0.22:
        # a column is read (every snapshot reads the focus columns), changed in place, and read again
        col = rng.choice(free)
        h.focus_on(col)
        for _ in range(rng.choice([1, 1, 2])):
            how = rng.random()
            if how < 0.4:
                h.add(col, rng.choice(h.cols), True)          # canonical name: no interactive question
            elif how < 0.8 or col not in ("cogid", "note", "ipa"):
                h.set(col)
            else:                                              # renumber INTO the column that was read before
                src = rng.choice([c for c in ("cogid", "ipa", "note") if c in h.cols and c != col] or [col])
                if src == col or not h.renum(src, col, True):
                    h.set(col)
    elif scen < 0.40:
        # renumber, change values of the source, renumber again into the same target
        src = rng.choice([c for c in ("cogid", "ipa", "note") if c in cols])
        tgt = rng.choice(["", "newid"])
        name = (tgt or src + "id").lower()
        h.focus_on(name)
        if h.renum(src, tgt, False, fixed_spelling=True):
            for _ in range(rng.choice([1, 1, 2])):
                if rng.random() < 0.75:
                    h.set(src, value=rng.choice(NEWVALS[src] + ["!new", "0a", "~"] if src != "cogid"
                                                else NEWVALS[src] + [-3, 12, "!n"]))
                else:
                    h.add(src, rng.choice(h.cols), True)
            h.renum(src, tgt, True, fixed_spelling=True)
    else:
        for _ in range(rng.choice([0, 1, 1, 2])):
            c = rng.random()
            if c < 0.3:
                src = rng.choice([x for x in h.cols if x in ("cogid", "ipa", "note", "newid")] or ["cogid"])
                tgt = rng.choice(["", "newid", "NewID" if rng.random() < 0.2 else "newid"])
                h.renum(src, tgt, rng.random() < 0.15)
            elif c < 0.42:
                r = rng.random()
                if r < 0.1:
                    h.set(rng.choice(free), rid=95)                              # KeyError: no such row
                elif r < 0.2:
                    h.set(rng.choice(free), spelled=rng.choice(["zzz", "Cogid"]))  # KeyError: no such column
                else:
                    h.set(rng.choice([x for x in h.cols if x not in ("doculect", "concept")]))
            else:
                # ("iso" after a column was added under its alias "isocode": the name isocode is then both a
                #  column of its own and a configured alias of iso - no consistent reading exists; see notes)
                cands = [x for x in ["xx", "Foo", "tokens", "cogids", "iso", "langid", "partial_ids", "yy"]
                         if x.lower() not in h.cols and not (x == "iso" and "isocode" in h.cols)]
                override = rng.random() < 0.2
                if override and rng.random() < 0.7:
                    entry = rng.choice([x for x in h.cols if x not in ("doculect", "concept")])
                else:
                    entry = rng.choice(cands)
                if rng.random() < 0.08:
                    entry = rng.choice(["isocode", "TOKENS", "Partial_IDs"])
                    if entry.lower() in h.cols or "iso" in h.cols and entry == "isocode":
                        continue
                h.add(entry, rng.choice(h.cols), override)
    return h.ops, h.cols_after, h.news, h.focus


# ------------------------------------------------------------------------------------ coding
class Codes:
    """Python values -> cells.  ints as themselves, '' as 1000, every other string gets a code > 1000
    (order of first appearance in a deterministic walk of the case)."""

    def __init__(self):
        self.s = {}

    def name(self, s):
        if s == "":
            return 1000
        if s not in self.s:
            self.s[s] = 1001 + len(self.s)
        return self.s[s]

    def atom(self, v):
        import numpy as np
        if isinstance(v, (bool,)):
            raise ValueError("bool cell")
        if isinstance(v, (int, np.integer)):
            v = int(v)
            if not (-1000 < v < 1000 or v >= 2 ** 20):        # small numbers and huge row ids; codes of strings lie between
                raise ValueError("integer out of coding range: %r" % v)
            return v
        if isinstance(v, str):
            return self.name(v)
        # something that must be atomic (a dictionary key, a name) but is not: a code of its own, which no
        # row carries - the model cannot produce it and the checkers reject it
        return self.name("<not atomic: %r>" % (v,))

    def cell(self, v):
        if isinstance(v, (list, tuple)):
            return "(Multi %s)" % zl([self.atom(x) for x in v])
        return "(Atom %s)" % zn(self.atom(v))

    def keys(self):
        strs = [""] + list(self.s)
        lows = sorted(set(s.lower() for s in strs))
        raws = sorted(set(strs))
        lk = [(self.name(s), lows.index(s.lower())) for s in strs]
        rk = [(self.name(s), raws.index(s)) for s in strs]
        return lk, rk


def zn(n):
    n = int(n)
    return str(n) if n >= 0 else "(%d)" % n


def zl(l):
    return "[" + "; ".join(zn(x) for x in l) + "]"


def lst(items):
    return "[" + "; ".join(items) + "]"


def opt(x, f):
    return "None" if x is None else "(Some %s)" % f(x)


def pair(a, b):
    return "(%s, %s)" % (a, b)


def cstr(s):
    assert all(32 <= ord(c) < 127 and c != '"' for c in s), s
    return '"%s"%%string' % s


# ------------------------------------------------------------------------- implementation runner
def decode_dst(x, height):
    """Exact rational for an entry of the distance matrix.  The implementation computes
    1 - s/d with integers 0 <= s <= d <= height: the float is fl(1 - fl(s/d)).  The rational with
    denominator <= height nearest to x is accepted only if recomputing it the same way gives
    exactly x; otherwise the exact binary value of x is reported (and cannot match)."""
    if isinstance(x, int) and not isinstance(x, bool):
        return F(x)
    f = F(x).limit_denominator(max(int(height), 1))
    p, q = f.numerator, f.denominator
    if 0 <= p <= q and 1 - (q - p) / q == x:
        return f
    return F(x)


def mk_multi(case, v):
    """a multi-valued cell in the container this case uses: list, tuple or a lingpy.basictypes object"""
    if not isinstance(v, list):
        return v
    kind = case.get("multi", "list")
    if kind == "tuple":
        return tuple(v)
    if kind == "basictypes" and v and all(isinstance(x, int) for x in v):
        from lingpy import basictypes
        return basictypes.ints(list(v))
    if kind == "basictypes" and v and all(isinstance(x, str) and x and " " not in x for x in v):
        from lingpy import basictypes
        return basictypes.strings(list(v))
    return list(v)


def build_input(case):
    d = {0: list(case["header"])}
    for rid, cells in case["rows"]:
        d[rid] = [mk_multi(case, c) for c in cells]
    for k, v in case.get("meta", []):
        d[k] = list(v) if isinstance(v, list) else v
    return d


def write_file(case, path):
    lines = []
    for k, v in case.get("meta", []):
        if isinstance(v, list):
            assert k == "taxa"
            lines += ["<taxa>"] + list(v) + ["</taxa>"]
        else:
            lines.append("@%s: %s" % (k, v))
    lines.append("\t".join(["ID"] + [h.upper() for h in case["header"]]))
    for rid, strs in case["raw"]:
        lines.append("\t".join([str(rid)] + list(strs)))
    with open(path, "w", encoding="utf-8") as f:
        f.write("\n".join(lines) + "\n")


def plain(v):
    """canonical JSON-able copy of a returned value"""
    import numpy as np
    if isinstance(v, (np.integer,)):
        return int(v)
    if isinstance(v, (list, tuple)):
        return [plain(x) for x in v]
    if isinstance(v, dict):
        return [[plain(k), plain(x)] for k, x in v.items()]
    return v


def views(wl, q, s, rows, cols):
    try:
        wl.get_list(col=cols[0], entry=s)
    except KeyError:
        return None
    ev = {"list_row": [[plain(wl.get_list(row=c, entry=s)), plain(wl.get_list(row=c, entry=s, flat=True))]
                       for c in rows],
          "dict_row": [plain(dict(wl.get_dict(row=c, entry=s))) for c in rows],
          "list_col": [[plain(wl.get_list(col=l, entry=s)), plain(wl.get_list(col=l, entry=s, flat=True))]
                       for l in cols],
          "dict_col": [plain(dict(wl.get_dict(col=l, entry=s))) for l in cols],
          "entries": [], "etym": []}
    if s:
        via_attr = (q.get("attr") and s.isidentifier() and not s.startswith("_")
                    and wl._alias.get(s) not in (wl._row_name, wl._col_name))
        ev["entries"] = plain(getattr(wl, s) if via_attr else wl.get_entries(s))
    for ref in q["refs"]:
        try:
            ev["etym"].append(plain(wl.get_etymdict(ref=ref, entry=s)))
        except KeyError:
            ev["etym"].append(None)
    return ev


def snapshot(wl, q):
    rows, cols = list(wl.rows), list(wl.cols)
    s = {"rows": rows, "cols": cols, "len": len(wl), "height": wl.height, "width": wl.width,
         "array": plain(wl._array.tolist()), "idx": plain(wl._idx),
         "dict": [[c, plain(dict(d))] for c, d in wl._dict.items()], "columns": list(wl.columns),
         "data": [[k, plain(wl[k])] for k in wl]}
    try:
        s["iter"] = plain(list(wl.iter_rows(*q["iter"])))
    except KeyError:
        s["iter"] = None
    s["views"] = [views(wl, q, e, rows, cols) for e in q["entries"]]
    s["items"] = []
    for name in q["items"]:
        v = [wl[k, name] for k in wl]
        s["items"].append(None if all(x is None for x in v) else plain(v))
    s["dst"] = []
    for ref, ign in q["dst"]:
        try:
            m = wl.get_distances(ref=ref, ignore_missing=ign)
            s["dst"].append([[str(decode_dst(x, wl.height)) for x in r] for r in m])
        except KeyError:
            s["dst"].append(None)
    s["attrs"] = []
    for name in q.get("attrs", []):
        try:
            v = plain(getattr(wl, name))
        except AttributeError:
            v = {"err": True}
        s["attrs"].append(v)
    s["kws"] = []
    for kw, name in q.get("kws", []):
        try:
            s["kws"].append(plain(wl.get_list(flat=True, **{kw: name})))
        except ValueError:
            s["kws"].append(None)
    s["paps"] = []
    for ref, marker in q["paps"]:
        try:
            s["paps"].append(plain(wl.get_paps(ref=ref, missing=marker)))
        except KeyError:
            s["paps"].append(None)
    return s


_tmp_counter = [0]


def run_impl(case):
    from lingpy import Wordlist
    res = {"snap0": None, "snaps": [None] * len(case["ops"]), "conv": [], "skeys": []}
    try:
        if case["source"] == "file":
            d = os.path.join(env.BUILD, "tmp", "wordlist-%d" % os.getpid())
            os.makedirs(d, exist_ok=True)
            _tmp_counter[0] += 1
            path = os.path.join(d, "w%d.qlc" % _tmp_counter[0])
            write_file(case, path)
            try:
                wl = Wordlist(path, row=case.get("row", "concept"), col=case.get("col", "doculect"))
            finally:
                os.remove(path)
        else:
            wl = Wordlist(build_input(case), row=case.get("row", "concept"), col=case.get("col", "doculect"))
    except (KeyError, ValueError, IndexError) as e:
        res["ctor_error"] = "%s: %s" % (type(e).__name__, str(e)[:200])
        return res
    res["snap0"] = snapshot(wl, case["q0"])
    for i, op in enumerate(case["ops"]):
        try:
            if op["kind"] == "add":
                t = {key_of(a): b for a, b in op["table"]}
                default = op["default"]

                def f(x, t=t, default=default):
                    r = t.get(key_of(plain(x)), default)
                    return mk_multi(case, r)
                wl.add_entries(op["entry"], op["source"], f, override=op["override"])
            elif op["kind"] == "set":
                v = op["value"]
                wl[op["id"], op["col"]] = mk_multi(case, v)
            else:
                raw = [wl[k, op["source"]] for k in wl]         # str() of the stored objects (tuple, list, ...)
                vals = [plain(x) for x in raw]
                strs = sorted(set(str(x) for x in raw))
                distinct = list({key_of(v): (v, str(x)) for v, x in zip(vals, raw)}.values())
                res["skeys"].append({"table": [[v, strs.index(sx)] for v, sx in distinct],
                                     "kempty": strs.index("") if "" in strs else -5})
                wl.renumber(op["source"], op["target"], override=op["override"])
                target = op["target"] or (op["source"] + "id")
                conv = wl._meta[op["source"] + "2" + target]
                # keys the harness did not see among the current values get codes past the end
                res["conv"].append([[strs.index(k) if k in strs else 900 + j, v]
                                    for j, (k, v) in enumerate(conv.items())])
        except (KeyError, ValueError, IndexError, EOFError, OSError) as e:
            res["op_error"] = "step %d: %s: %s" % (i, type(e).__name__, str(e)[:200])
            return res
        res["snaps"][i] = snapshot(wl, case["qs"][i])
    return res


# ------------------------------------------------------------------------------------ rendering
def r_cl(C, l):
    return lst([C.cell(x) for x in l])


def r_cll(C, ll):
    return lst([r_cl(C, l) for l in ll])


def r_zcl(C, d):
    return lst([pair(zn(C.atom(k)), r_cl(C, v)) for k, v in d])


def r_etym_slots(C, slots):
    return lst([r_cl(C, []) if s == 0 else r_cl(C, s) for s in slots])


def r_views(C, ev):
    return "(Build_entry_views %s %s %s %s %s %s)" % (
        lst([pair(r_cll(C, a), r_cl(C, b)) for a, b in ev["list_row"]]),
        lst([r_zcl(C, d) for d in ev["dict_row"]]),
        lst([pair(r_cl(C, a), r_cl(C, b)) for a, b in ev["list_col"]]),
        lst([r_zcl(C, d) for d in ev["dict_col"]]),
        r_cll(C, ev["entries"]),
        lst([opt(e, lambda e: lst([pair(zn(C.atom(k)), r_etym_slots(C, v)) for k, v in e]))
             for e in ev["etym"]]))


def r_attr(C, a):
    if isinstance(a, dict):
        return "AErr"
    if isinstance(a, list) and a and all(isinstance(x, list) for x in a):
        return "(ATable %s)" % r_cll(C, a)
    if isinstance(a, list):
        return "(AList %s)" % zl([C.atom(x) for x in a])
    return "(AAtom %s)" % zn(C.atom(a))


def r_snapshot(C, s):
    return "(Build_snapshot %s)" % " ".join([
        zl([C.name(x) for x in s["rows"]]), zl([C.name(x) for x in s["cols"]]),
        zn(s["len"]), zn(s["height"]), zn(s["width"]),
        lst([zl(r) for r in s["array"]]),
        lst([pair(zn(C.atom(k)), zl(v)) for k, v in s["idx"]]),
        lst([pair(zn(C.atom(c)), lst([pair(zn(C.atom(l)), zl(ids)) for l, ids in d])) for c, d in s["dict"]]),
        lst([cstr(x) for x in s["columns"]]),
        lst([pair(zn(k), r_cl(C, cells)) for k, cells in s["data"]]),
        opt(s["iter"], lambda it: lst([pair(zn(r[0]), r_cl(C, r[1:])) for r in it])),
        lst([opt(v, lambda v: r_views(C, v)) for v in s["views"]]),
        lst([opt(v, lambda v: r_cl(C, v)) for v in s["items"]]),
        lst([opt(m, lambda m: lst([lst([L.q(F(x)) for x in r]) for r in m])) for m in s["dst"]]),
        lst([opt(p, lambda p: lst([pair(zn(C.atom(k)), zl([C.atom(x) for x in v])) for k, v in p]))
             for p in s["paps"]]),
        lst([r_attr(C, a) for a in s["attrs"]]),
        lst([opt(v, lambda v: r_cl(C, v)) for v in s["kws"]])])


def r_queries(C, q):
    return "(Build_queries %s)" % " ".join([
        lst([cstr(x) for x in q["entries"]]), lst([cstr(x) for x in q["refs"]]),
        lst([cstr(x) for x in q["items"]]), lst([cstr(x) for x in q["iter"]]),
        lst([pair(cstr(r), L.b(i)) for r, i in q["dst"]]),
        lst([pair(cstr(r), zn(m)) for r, m in q["paps"]]),
        lst([cstr(x) for x in q.get("attrs", [])]),
        lst([pair(cstr(k), zn(C.name(n))) for k, n in q.get("kws", [])])])


def render(case, res):
    C = Codes()
    data = lst([pair(zn(rid), r_cl(C, cells)) for rid, cells in case["rows"]])
    ops = []
    ri = 0
    for op in case["ops"]:
        if op["kind"] == "add":
            ops.append("(OpAdd %s %s %s %s %s)" % (
                cstr(op["entry"]), cstr(op["source"]),
                lst([pair(C.cell(a), C.cell(b)) for a, b in op["table"]]), C.cell(op["default"]),
                L.b(op["override"])))
        elif op["kind"] == "set":
            ops.append("(OpSet %s %s %s)" % (zn(op["id"]), cstr(op["col"]), C.cell(op["value"])))
        else:
            sk = res["skeys"][ri] if ri < len(res["skeys"]) else {"table": [], "kempty": -5}
            ri += 1
            ops.append("(OpRenum %s %s %s %s %s)" % (
                cstr(op["source"]), cstr(op["target"]), L.b(op["override"]),
                lst([pair(C.cell(v), zn(k)) for v, k in sk["table"]]), zn(sk["kempty"])))
    meta = lst([pair(cstr(k), C.cell(v)) for k, v in case.get("meta", [])])

    def toint(x):
        try:
            v = int(x)
            return v if (-1000 < v < 1000 or v >= 2 ** 20) else None
        except ValueError:
            return None

    def r_raw(x):
        return "(Build_raw %s %s %s)" % (zn(C.name(x)), opt(toint(x), zn),
                                         lst([pair(zn(C.name(t)), opt(toint(t), zn)) for t in x.split()]))
    rawrows = opt(case.get("raw") if case["source"] == "file" else None,
                  lambda rr: lst([pair(zn(rid), lst([r_raw(x) for x in strs])) for rid, strs in rr]))
    q0 = r_queries(C, case["q0"])
    snap0 = opt(res["snap0"], lambda s: r_snapshot(C, s))
    steps = lst(["(%s, %s, %s)" % (o, r_queries(C, q), opt(sn, lambda s: r_snapshot(C, s)))
                 for o, q, sn in zip(ops, case["qs"], res["snaps"])])
    conv = lst([lst([pair(zn(a), zn(b)) for a, b in c]) for c in res["conv"]])
    lk, rk = C.keys()                                           # after everything has been coded
    hdr = [h.lower() for h in case["header"]] if case["source"] == "file" else case["header"]
    return "(Build_wl_case %s)" % " ".join([
        lst([cstr(h) for h in hdr]), data, cstr(case.get("row", "concept")), cstr(case.get("col", "doculect")), meta, rawrows,
        lst([pair(zn(a), zn(b)) for a, b in lk]), lst([pair(zn(a), zn(b)) for a, b in rk]),
        q0, snap0, steps, conv])


# ------------------------------------------------------------------------------- bookkeeping
def nontrivial(case, res):
    """at least two languages or two concepts, and a synonym cell or a gap in coverage"""
    if res["snap0"] is None:
        return False
    s = res["snap0"]
    if len(s["rows"]) < 2 and len(s["cols"]) < 2:
        return False
    flat = [x for r in s["array"] for x in r]
    return len(s["array"]) > len(s["rows"]) or 0 in flat


def jsonable(case, res=None):
    c = {k: v for k, v in case.items()}
    if res is not None:
        c["impl"] = res
    return c


def _q(q):
    q = dict(q)
    q["kws"] = [tuple(x) for x in q.get("kws", [])]
    q["dst"] = [tuple(x) for x in q["dst"]]
    q["paps"] = [tuple(x) for x in q["paps"]]
    return q


LIGHT_Q = {"entries": [""], "refs": ["cogid"], "items": [], "iter": [], "dst": [], "paps": []}


def from_json(c):
    case = dict(c)
    case.pop("impl", None)
    case["q0"] = _q(case["q0"])
    if "qs" not in case:                     # corpus cases written before per-step snapshots existed
        n = len(case["ops"])
        case["qs"] = [dict(LIGHT_Q) for _ in range(max(n - 1, 0))] + ([case.pop("q1")] if n else [])
        case.pop("q1", None)
    case["qs"] = [_q(q) for q in case["qs"]]
    return case


def shrink(case):
    """a few smaller cases per round (each candidate costs an implementation run and a Coq evaluation)"""
    import itertools
    return itertools.islice(_shrink_all(case), 14)


def _shrink_all(case):
    rows = case["rows"]
    for i in range(len(case["ops"]) - 1, -1, -1):
        c = dict(case)
        c["ops"] = case["ops"][:i] + case["ops"][i + 1:]
        c["qs"] = case["qs"][:i] + case["qs"][i + 1:]
        yield c
    if len(rows) > 1:
        for i in range(len(rows)):
            c = dict(case)
            c["rows"] = rows[:i] + rows[i + 1:]
            if case.get("raw"):
                c["raw"] = case["raw"][:i] + case["raw"][i + 1:]
            yield c
    for key in ("entries", "items", "paps", "dst"):
        if len(case["q0"][key]) > 1:
            c = dict(case)
            c["q0"] = dict(case["q0"])
            c["q0"][key] = case["q0"][key][:1]
            yield c


def classify(case, res):
    out = ["source=" + case["source"], "kind=" + case["kind"], "ops=%d" % len(case["ops"])]
    s = res["snap0"]
    if s is None:
        out.append("ctor-raised")
        return out
    out += ["langs=%d" % len(s["cols"]), "concepts=%d" % len(s["rows"])]
    if len(s["array"]) > len(s["rows"]):
        out.append("synonyms")
    if any(0 in r for r in s["array"]):
        out.append("gaps")
    if len(set(x.lower() for x in s["cols"])) < len(s["cols"]) or len(set(x.lower() for x in s["rows"])) < len(s["rows"]):
        out.append("case-collision")
    if case["ops"] and res["snaps"][-1] is None:
        out.append("op-raised")
    if case.get("row", "concept") != "concept" or case.get("col", "doculect") != "doculect":
        out.append("row/col-by-alias")
    if case.get("meta"):
        out.append("meta-collides")
    out.append("multi=" + case.get("multi", "list"))
    if any(r[0] >= 2 ** 31 - 1 for r in case["rows"]):
        out.append("huge-ids")
    flat = [c for r in case["rows"] for c in r[1] if isinstance(c, str)]
    if any(a in flat and b in flat for a, b in TWINS):
        out.append("nfc-nfd-twin-values")
    for op in case["ops"]:
        out.append("op=" + op["kind"] + ("-override" if op.get("override") else ""))
    if case.get("focus"):
        out.append("read-change-read")
    return out


def model_expr(case, res, rundir):
    return None
