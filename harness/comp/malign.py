"""Component: _malign (nw_align, sw_align, we_align, edit_dist, restricted_edit_dist) through the
pairwise.py wrappers.  Used by C01, C03."""
import random
from fractions import Fraction as F

from ..lib import coqlit as L
from . import align as AL

IMPORTS = ("From LV Require Import Common.Cases Align.DP Align.Calign Align.CalignExec Align.Malign "
           "Align.MalignExec.")
KINDS = ["nw", "sw", "we", "ed", "red"]
sym = AL.sym


def gen_case(rng, maxlen=6, kind=None):
    kind = kind or rng.choice(["nw", "nw", "sw", "sw", "we", "ed", "ed", "red"])
    alpha = AL.ALPHA[:rng.choice([2, 2, 3, 4])]
    la, lb = rng.randint(1, maxlen), rng.randint(1, maxlen)
    if kind == "ed" and rng.random() < 0.1:
        la = rng.choice([0, la])
        lb = rng.choice([0, lb])
    if rng.random() < 0.15:
        la, lb = rng.randint(1, 2), rng.randint(maxlen - 1, maxlen + 2)
    sa = [rng.choice(alpha) for _ in range(la)]
    sb = [rng.choice(alpha) for _ in range(lb)]
    if rng.random() < 0.3 and sa:
        sb = list(sa)
        k = rng.random()
        if k < 0.3 and sb:
            sb[rng.randrange(len(sb))] = rng.choice(alpha)
        elif k < 0.6:
            sb = sb + sb[:2] if rng.random() < 0.5 else sb[1:] + sb  # repeats: several local matches
    if kind == "we" and rng.random() < 0.5:
        sb = sa[len(sa) // 2:] + [rng.choice(alpha)] + sa[:len(sa) // 2]
        sb = sb or ["a"]
    default = rng.random() < 0.2
    case = {"kind": kind, "seqA": sa, "seqB": sb, "alpha": alpha, "default_scorer": default,
            "gap": rng.choice([F(-1), F(-1), F(-2), F(-1, 2), F(0), F(1)]) if not default else F(-1),
            "scorer": ({(a, b): (F(1) if a == b else F(-1)) for a in alpha for b in alpha} if default
                       else AL.gen_scorer(rng, alpha)),
            "normalized": rng.random() < 0.5,
            "resA": [rng.choice("cv") for _ in sa], "resB": [rng.choice("cv") for _ in sb],
            "wrapper": rng.random() < 0.7,
            # wrappers only: this letter is handed over as a BLANK (a legal symbol of a string, tuple or list)
            "blank": rng.choice(alpha) if rng.random() < 0.3 else None,
            # ... or as a combining mark (a str input must be taken code point by code point, not normalised)
            "blank_char": rng.choice([" ", " ", "\u0303", "\u0301", "ts", "t\u02b0"])}
    return case


def _row(row):
    return [None if x == "-" else sym(x) for x in row]


def run_impl(case):
    from lingpy.align import pairwise as pw
    from lingpy.algorithm.cython import _malign as malign
    sa, sb = list(case["seqA"]), list(case["seqB"])
    kind = case["kind"]
    scorer = {k: float(v) for k, v in case["scorer"].items()}
    gap = float(case["gap"])
    bc = case.get("blank_char", " ")
    multi = len(bc) > 1       # a multi-character TOKEN (lists / tuples only; also through the direct functions)
    bl = case.get("blank") if (case["wrapper"] or multi) else None
    to_b = lambda x: bc if x == bl else x
    unb = lambda row: [bl if x == bc else x for x in row]
    if bl:
        sa, sb = [to_b(x) for x in sa], [to_b(x) for x in sb]
        scorer = {(to_b(a), to_b(b)): v for (a, b), v in scorer.items()}
    if kind in ("nw", "sw", "we"):
        if case["wrapper"]:
            f = getattr(pw, kind + "_align")
            # the wrappers accept strings, tuples or lists
            a, b = ("".join(sa), "".join(sb)) if (case["default_scorer"] and not (bl and multi)) else (tuple(sa), tuple(sb))
            out = f(a, b) if case["default_scorer"] else f(a, b, scorer=scorer, gap=gap)
            if bl and kind == "nw":
                out = (unb(out[0]), unb(out[1]), out[2])
            elif bl and kind == "sw":
                out = (tuple(unb(p) for p in out[0]), tuple(unb(p) for p in out[1]), out[2])
            elif bl:
                out = [(unb(x), unb(y), z) for x, y, z in out]
        else:
            out = getattr(malign, kind + "_align")(sa, sb, scorer, gap)
            if bl and kind == "nw":
                out = (unb(out[0]), unb(out[1]), out[2])
            elif bl and kind == "sw":
                out = (tuple(unb(p) for p in out[0]), tuple(unb(p) for p in out[1]), out[2])
            elif bl:
                out = [(unb(x), unb(y), z) for x, y, z in out]
        if kind == "nw":
            return {"out": {"kind": "global", "almA": _row(out[0]), "almB": _row(out[1]), "sim": F(out[2])}}
        if kind == "sw":
            (pa, a, sfa), (pb, b, sfb), sim = out
            return {"out": {"preA": _row(pa), "almA": _row(a), "sufA": _row(sfa),
                            "preB": _row(pb), "almB": _row(b), "sufB": _row(sfb), "sim": F(sim)}}
        return {"out": [{"almA": _row(a), "almB": _row(b), "sim": F(s)} for a, b, s in out]}
    if kind == "ed":
        if case["wrapper"]:
            d = pw.edit_dist(sa, sb)
            dn = pw.edit_dist(*(("".join(sa), "".join(sb)) if not (bl and multi) else (tuple(sa), tuple(sb))),
                              normalized=True) if (sa or sb) else None
        else:
            d = malign.edit_dist(sa, sb, False)
            dn = malign.edit_dist(sa, sb, True) if (sa or sb) else None
        assert isinstance(d, int)
        return {"out": d, "norm": None if dn is None else F(dn)}
    ra, rb = "".join(case["resA"]), "".join(case["resB"])
    d = malign.restricted_edit_dist(sa, sb, ra, rb, False)
    dn = malign.restricted_edit_dist(sa, sb, ra, rb, True)
    return {"out": d, "norm": F(dn)}


def _sc(case):
    return L.lst([L.pair(L.z(sym(a)), L.z(sym(b)), L.q(v)) for (a, b), v in sorted(case["scorer"].items())])


def render(case, res):
    A = L.zlist([sym(x) for x in case["seqA"]])
    B = L.zlist([sym(x) for x in case["seqB"]])
    kind = case["kind"]
    o = res["out"]
    if kind == "nw":
        return "(MNW %s %s %s %s %s)" % (A, B, _sc(case), L.q(case["gap"]), AL.result_lit(o))
    if kind == "sw":
        out = "(SW %s %s %s %s %s %s %s)" % tuple(
            [AL.optrow(o[k]) for k in ("preA", "almA", "sufA", "preB", "almB", "sufB")] + [L.q(o["sim"])])
        return "(MSW %s %s %s %s %s)" % (A, B, _sc(case), L.q(case["gap"]), out)
    if kind == "we":
        out = L.lst([L.pair(AL.optrow(t["almA"]), AL.optrow(t["almB"]), L.q(t["sim"])) for t in o])
        return "(MWE %s %s %s %s %s)" % (A, B, _sc(case), L.q(case["gap"]), out)
    if kind == "ed":
        return "(MED %s %s %s %s)" % (A, B, L.z(o), L.opt(res["norm"], L.q))
    return "(MRED %s %s %s %s %s %s)" % (A, B, L.zlist([ord(c) for c in case["resA"]]),
                                        L.zlist([ord(c) for c in case["resB"]]), L.z(o), L.q(res["norm"]))


BITS = {0: "correspondence: model output differs from implementation output",
        1: "C01: returned alignment is not a valid alignment of the inputs",
        3: "C03: returned score is not the optimum over all alignments / not the Levenshtein distance"}


def nontrivial(case, res):
    return case["seqA"] != case["seqB"] and len(case["seqA"]) + len(case["seqB"]) > 2


def classify(case, res):
    out = ["kind=" + case["kind"], "wrapper" if case["wrapper"] else "direct",
           "lenA=%d" % len(case["seqA"])]
    if case["kind"] == "we":
        out.append("we_matches=%d" % len(res["out"]))
    return out


def jsonable(case, res=None):
    c = dict(case)
    c["gap"] = str(case["gap"])
    c["scorer"] = {"%s,%s" % k: str(v) for k, v in case["scorer"].items()}
    if res is not None:
        c["impl"] = res
    return c


def from_json(c):
    case = dict(c)
    case.pop("impl", None)
    case["gap"] = F(c["gap"])
    case["scorer"] = {tuple(k.split(",")): F(v) for k, v in c["scorer"].items()}
    return case


def shrink(case):
    for key, r in (("seqA", "resA"), ("seqB", "resB")):
        n = len(case[key])
        if n > 1:
            for drop in range(n):
                c = dict(case)
                c[key] = [x for i, x in enumerate(case[key]) if i != drop]
                c[r] = [x for i, x in enumerate(case[r]) if i != drop]
                yield c
    if case["gap"] != F(-1):
        c = dict(case)
        c["gap"] = F(-1)
        yield c


def model_expr(case, res, rundir):
    return None
