"""Build the Coq development and check the proof obligations of one property."""
import fcntl
import os
import re
import subprocess
import time

from . import env
from .coqrun import COQC

FORBIDDEN = re.compile(
    r"\b(Admitted|admit|Axiom|Axioms|Parameter|Parameters|Conjecture|Conjectures|Admit Obligations|"
    r"Unset Guard Checking|Unset Positivity Checking|Unset Universe Checking|bypass_check|"
    r"type-in-type|impredicative-set|native_compute)\b")
# axioms the standard library itself declares (permitted when named in the trusted base)
STDLIB_AXIOMS = {
    "functional_extensionality_dep", "FunctionalExtensionality.functional_extensionality_dep",
    "proof_irrelevance", "ProofIrrelevance.proof_irrelevance", "classic", "Classical_Prop.classic",
    "JMeq_eq", "JMeq.JMeq_eq", "Eqdep.Eq_rect_eq.eq_rect_eq", "eq_rect_eq",
    "ClassicalDedekindReals.sig_forall_dec", "ClassicalDedekindReals.sig_not_dec",
    "propositional_extensionality",
}


def _strip_comments(text):
    out, depth, i = [], 0, 0
    while i < len(text):
        if text.startswith("(*", i):
            depth += 1
            i += 2
        elif text.startswith("*)", i) and depth:
            depth -= 1
            i += 2
        else:
            if not depth:
                out.append(text[i])
            i += 1
    return "".join(out)


def scan_forbidden():
    hits = []
    for root in (os.path.join(env.COQ, "theories"), os.path.join(env.COQ, "gen")):
        for dp, _, fns in os.walk(root):
            for fn in fns:
                if fn.endswith(".v"):
                    p = os.path.join(dp, fn)
                    for n, line in enumerate(_strip_comments(open(p).read()).splitlines(), 1):
                        if FORBIDDEN.search(line):
                            hits.append("%s:%d: %s" % (os.path.relpath(p, env.VERIF), n, line.strip()))
    return hits


class lock:
    def __enter__(self):
        os.makedirs(env.BUILD, exist_ok=True)
        self.f = open(os.path.join(env.BUILD, ".coq.lock"), "w")
        fcntl.flock(self.f, fcntl.LOCK_EX)

    def __exit__(self, *a):
        fcntl.flock(self.f, fcntl.LOCK_UN)
        self.f.close()


def make(target=None, timeout=3000):
    with lock():
        from . import coqproject
        if coqproject.regenerate() or not os.path.exists(os.path.join(env.COQ, "Makefile")):
            subprocess.run(["coq_makefile", "-f", "_CoqProject", "-o", "Makefile"], cwd=env.COQ, check=True,
                           capture_output=True)
        cmd = ["timeout", str(timeout), "make", "-j%d" % env.JOBS]
        if target:
            cmd.append(target)
        p = subprocess.run(cmd, cwd=env.COQ, capture_output=True, text=True)
        return p.returncode, p.stdout + p.stderr


def check_property(prop, gen=()):
    """Returns a dict: ok, obligations, discharged, theorems [(name, assumptions)], axioms, log, broken."""
    t0 = time.time()
    res = {"ok": False, "obligations": 0, "discharged": 0, "theorems": [], "axioms": [], "broken": [],
           "log": ""}
    for g in gen:              # translators: regenerate coq/gen/*.v from /repo
        try:
            g()
        except Exception as e:  # fail closed
            res["broken"].append("translator %s: %s" % (getattr(g, "__name__", g), e))
            res["log"] = str(e)
            return res
    src = os.path.join(env.COQ, "theories", "Props", prop + ".v")
    text = _strip_comments(open(src).read())
    names = re.findall(r"^\s*(?:Theorem|Corollary)\s+(\w+)", text, re.M)
    res["obligations"] = len(names)
    hits = scan_forbidden()
    if hits:
        res["broken"].append("forbidden construct: " + "; ".join(hits[:5]))
        return res
    rc, log = make("theories/Props/%s.vo" % prop)
    res["log"] = log[-3000:]
    if rc != 0:
        m = re.search(r'File "([^"]+)", line (\d+)', log)
        res["broken"].append("build of Props/%s.vo failed%s" % (prop, " at %s:%s" % m.groups() if m else ""))
        return res
    # re-run coqc on the property file to capture Print Assumptions
    os.makedirs(os.path.join(env.BUILD, "props"), exist_ok=True)
    p = subprocess.run(["timeout", "900"] + COQC + ["-o", os.path.join(env.BUILD, "props", prop + ".vo"), src],
                       capture_output=True, text=True, cwd=env.COQ)
    if p.returncode != 0:
        res["broken"].append("coqc Props/%s.v failed: %s" % (prop, (p.stderr or p.stdout)[-800:]))
        return res
    out = p.stdout
    blocks = re.split(r"(?=Closed under the global context|Axioms:)", out)
    assum = [b.strip() for b in blocks if b.startswith("Closed under") or b.startswith("Axioms:")]
    if len(assum) < len(names):
        res["broken"].append("Print Assumptions missing for some theorem of %s (%d < %d)" %
                             (prop, len(assum), len(names)))
        return res
    axioms = set()
    for a in assum:
        if a.startswith("Axioms:"):
            for m in re.finditer(r"^([A-Za-z_][\w.']*)\s*:", a[len("Axioms:"):], re.M):
                axioms.add(m.group(1))
    bad = [a for a in axioms if a not in STDLIB_AXIOMS and a.split(".")[-1] not in STDLIB_AXIOMS]
    res["axioms"] = sorted(axioms)
    res["theorems"] = list(zip(names, assum))
    if bad:
        res["broken"].append("theorem depends on non-stdlib axiom(s): " + ", ".join(bad))
        return res
    res["discharged"] = len(names)
    res["ok"] = True
    res["wall_s"] = time.time() - t0
    return res
