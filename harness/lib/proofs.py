"""Build the Coq development and check the proof obligations of one property."""
import fcntl
import os
import re
import subprocess
import sys
import time

from . import env
from .coqrun import COQC

FORBIDDEN = re.compile(
    r"\b(Admitted|admit|Axiom|Axioms|Parameter|Parameters|Conjecture|Conjectures|Admit Obligations|"
    r"Unset Guard Checking|Unset Positivity Checking|Unset Universe Checking|bypass_check|"
    r"type-in-type|impredicative-set|native_compute)\b")
# axioms the standard library itself declares (permitted when named in the trusted base)
STDLIB_AXIOMS = {
    "functional_extensionality_dep", "FunctionalExtensionality.functional_extensionality_dep",
    "proof_irrelevance", "ProofIrrelevance.proof_irrelevance", "classic", "Classical_Prop.classic",
    "JMeq_eq", "JMeq.JMeq_eq", "Eqdep.Eq_rect_eq.eq_rect_eq", "eq_rect_eq",
    "ClassicalDedekindReals.sig_forall_dec", "ClassicalDedekindReals.sig_not_dec",
    "propositional_extensionality",
}


def _strip_comments(text):
    out, depth, i = [], 0, 0
    while i < len(text):
        if text.startswith("(*", i):
            depth += 1
            i += 2
        elif text.startswith("*)", i) and depth:
            depth -= 1
            i += 2
        else:
            if not depth:
                out.append(text[i])
            i += 1
    return "".join(out)


def cone(prop, order=False):
    """The .v files Props/<prop>.v depends on (transitively), from coqdep; order=True: in
    dependency order (dependencies first)."""
    start = os.path.join("theories", "Props", prop + ".v")
    deps = {}
    seen, todo = set(), [start]
    while todo:
        f = todo.pop()
        if f in seen or not os.path.exists(os.path.join(env.COQ, f)):
            continue
        seen.add(f)
        p = subprocess.run(["coqdep", "-Q", "theories", "LV", "-Q", "gen", "LVGen", f], cwd=env.COQ,
                           capture_output=True, text=True)
        deps[f] = []
        for line in p.stdout.splitlines():
            if ":" not in line or not line.split(":")[0].split()[0].endswith(".vo"):
                continue
            for dep in line.split(":", 1)[1].split():
                if dep.endswith(".vo") and (dep.startswith("theories/") or dep.startswith("gen/")):
                    todo.append(dep[:-1])
                    deps[f].append(dep[:-1])
    if not order:
        return sorted(seen)
    out, done = [], set()

    def visit(f):
        if f in done or f not in deps:
            return
        done.add(f)
        for d in deps[f]:
            visit(d)
        out.append(f)
    visit(start)
    return out


def build_cone(prop, timeout=1500):
    """Fallback when `make` fails for reasons outside the property's own files (e.g. coqdep on an
    unrelated broken file): compile the dependency cone directly, in order."""
    log = ""
    for f in cone(prop, order=True):
        vo = os.path.join(env.COQ, f[:-2] + ".vo")
        p = subprocess.run(["timeout", str(timeout)] + COQC + [f], cwd=env.COQ, capture_output=True, text=True)
        if p.returncode != 0:
            return p.returncode, log + (p.stderr or p.stdout)
        log += "coqc %s ok\n" % f
    return 0, log


def scan_forbidden(files=None):
    """Forbidden constructs in the given .v files (relative to coq/), default: the whole development."""
    hits = []
    if files is None:
        files = []
        for root in ("theories", "gen"):
            for dp, _, fns in os.walk(os.path.join(env.COQ, root)):
                files += [os.path.relpath(os.path.join(dp, fn), env.COQ) for fn in fns if fn.endswith(".v")]
    for f in sorted(files):
        p = os.path.join(env.COQ, f)
        for n, line in enumerate(_strip_comments(open(p).read()).splitlines(), 1):
            if FORBIDDEN.search(line):
                hits.append("%s:%d: %s" % (os.path.relpath(p, env.VERIF), n, line.strip()))
    return hits


class lock:
    def __enter__(self):
        os.makedirs(env.BUILD, exist_ok=True)
        self.f = open(os.path.join(env.BUILD, ".coq.lock"), "w")
        fcntl.flock(self.f, fcntl.LOCK_EX)

    def __exit__(self, *a):
        fcntl.flock(self.f, fcntl.LOCK_UN)
        self.f.close()


def make(target=None, timeout=3000):
    with lock():
        from . import coqproject
        if coqproject.regenerate() or not os.path.exists(os.path.join(env.COQ, "Makefile")):
            subprocess.run(["coq_makefile", "-f", "_CoqProject", "-o", "Makefile"], cwd=env.COQ, check=True,
                           capture_output=True)
        cmd = ["timeout", str(timeout), "make", "-j%d" % env.JOBS]
        if target:
            cmd.append(target)
        p = subprocess.run(cmd, cwd=env.COQ, capture_output=True, text=True)
        return p.returncode, p.stdout + p.stderr


def check_property(prop, gen=()):
    """Returns a dict: ok, obligations, discharged, theorems [(name, assumptions)], axioms, log, broken."""
    t0 = time.time()
    res = {"ok": False, "obligations": 0, "discharged": 0, "theorems": [], "axioms": [], "broken": [],
           "log": ""}
    # translators: regenerate EVERY coq/gen/*.v from the tree under test before anything is compiled (a gen file left
    # behind by a run against another tree - e.g. a scratch worktree with an edited data file - must never be compiled
    # into this run).  They rewrite a file only when its content changes.  Fail closed for the property's own
    # translators (gen) and, below, for any failure when the property's cone contains a generated file.
    # (run in a child interpreter: a translator may import lingpy, which some checks must not have imported yet)
    failed = {}
    with lock():
        p = subprocess.run([sys.executable, "-m", "harness.translate"], cwd=env.VERIF, capture_output=True, text=True,
                           env=dict(os.environ, PYTHONPATH=env.VERIF + os.pathsep + os.environ.get("PYTHONPATH", "")))
    for line in (p.stdout + p.stderr).splitlines():
        m = re.match(r"TRANSLATOR FAILED: (\w+): (.*)", line)
        if m:
            failed["harness.translate." + m.group(1)] = m.group(2)
    if p.returncode != 0 and not failed:
        failed["harness.translate"] = (p.stdout + p.stderr)[-400:]
    for g in gen:
        if getattr(g, "__module__", None) in failed:
            res["broken"].append("translator %s: %s" % (g.__module__, failed[g.__module__]))
            res["log"] = failed[g.__module__]
            return res
    src = os.path.join(env.COQ, "theories", "Props", prop + ".v")
    text = _strip_comments(open(src).read())
    names = re.findall(r"^\s*(?:Theorem|Corollary)\s+(\w+)", text, re.M)
    res["obligations"] = len(names)
    files = cone(prop)
    res["cone"] = files
    if failed and any(os.path.basename(os.path.dirname(f)) == "gen" or "/gen/" in f or f.startswith("gen/") for f in files):
        res["broken"].append("translator failed: " + "; ".join("%s: %s" % kv for kv in failed.items()))
        res["log"] = str(failed)
        return res
    hits = scan_forbidden(files)      # the property is judged on the files its theorems depend on
    if hits:
        res["broken"].append("forbidden construct: " + "; ".join(hits[:5]))
        return res
    rc, log = make("theories/Props/%s.vo" % prop)
    if rc != 0:
        with lock():
            rc2, log2 = build_cone(prop)
        if rc2 == 0:
            rc, log = 0, log[-800:] + "\n[make failed outside the cone; cone compiled directly]\n" + log2
        else:
            log = log2
    res["log"] = log[-3000:]
    if rc != 0:
        m = re.search(r'File "([^"]+)", line (\d+)', log)
        res["broken"].append("build of Props/%s.vo failed%s" % (prop, " at %s:%s" % m.groups() if m else ""))
        return res
    # re-run coqc on the property file to capture Print Assumptions
    os.makedirs(os.path.join(env.BUILD, "props"), exist_ok=True)
    p = subprocess.run(["timeout", "900"] + COQC + ["-o", os.path.join(env.BUILD, "props", prop + ".vo"), src],
                       capture_output=True, text=True, cwd=env.COQ)
    if p.returncode != 0:
        res["broken"].append("coqc Props/%s.v failed: %s" % (prop, (p.stderr or p.stdout)[-800:]))
        return res
    out = p.stdout
    blocks = re.split(r"(?=Closed under the global context|Axioms:)", out)
    assum = [b.strip() for b in blocks if b.startswith("Closed under") or b.startswith("Axioms:")]
    if len(assum) < len(names):
        res["broken"].append("Print Assumptions missing for some theorem of %s (%d < %d)" %
                             (prop, len(assum), len(names)))
        return res
    axioms = set()
    for a in assum:
        if a.startswith("Axioms:"):
            for m in re.finditer(r"^([A-Za-z_][\w.']*)\s*:", a[len("Axioms:"):], re.M):
                axioms.add(m.group(1))
    bad = [a for a in axioms if a not in STDLIB_AXIOMS and a.split(".")[-1] not in STDLIB_AXIOMS]
    res["axioms"] = sorted(axioms)
    res["theorems"] = list(zip(names, assum))
    if bad:
        res["broken"].append("theorem depends on non-stdlib axiom(s): " + ", ".join(bad))
        return res
    res["discharged"] = len(names)
    res["ok"] = True
    res["wall_s"] = time.time() - t0
    return res
