"""Evaluate correspondence cases inside Coq (vm_compute), in parallel shards."""
import os
import re
import shutil
import subprocess
import time
from concurrent.futures import ThreadPoolExecutor

from . import env

COQC = ["coqc", "-Q", os.path.join(env.COQ, "theories"), "LV", "-Q", os.path.join(env.COQ, "gen"), "LVGen",
        "-w", "-notation-overridden,-deprecated-hint-without-locality,-deprecated-instance-without-locality"]

PRELUDE = """From Coq Require Import QArith ZArith List Bool String.
Import ListNotations.
"""


class CoqError(Exception):
    pass


def rundir(prop):
    """A scratch directory for this process (concurrent runs of the same check do not disturb each
    other); directories left by processes that no longer exist are removed."""
    base = os.path.join(env.BUILD, "run")
    os.makedirs(base, exist_ok=True)
    for name in os.listdir(base):
        if name == prop or name.startswith(prop + "."):
            pid = name.rsplit(".", 1)[-1]
            if pid.isdigit() and os.path.exists("/proc/%s" % pid) and int(pid) != os.getpid():
                continue
            shutil.rmtree(os.path.join(base, name), ignore_errors=True)
    d = os.path.join(base, "%s.%d" % (prop, os.getpid()))
    os.makedirs(d, exist_ok=True)
    return d


def coqc_file(path, timeout=600):
    t0 = time.time()
    p = subprocess.run(["timeout", str(timeout)] + COQC + ["-noglob", path], capture_output=True, text=True,
                       cwd=os.path.dirname(path))
    return p.returncode, p.stdout, p.stderr, time.time() - t0


_PAIR = re.compile(r"\((\d+),\s*(\d+)\)")


def parse_bad(out):
    """Parse the printed value of `Eval vm_compute in (bad f cases)`."""
    m = re.search(r"=\s*(\[.*?\])\s*:\s*list \(nat \* nat\)", out, re.S)
    if not m:
        raise CoqError("cannot parse Coq output: %r" % out[:500])
    body = re.sub(r"\s+|%nat", "", m.group(1))
    if not re.fullmatch(r"\[(\(\d+,\d+\)(;\(\d+,\d+\))*)?\]", body):
        raise CoqError("unexpected shape of Coq output: %r" % body[:500])
    return [(int(a), int(c)) for a, c in _PAIR.findall(body)]


_BUILT = set()


def ensure_built(imports):
    """`make` the .vo files named by a 'From LV Require Import A.B ...' header (once per process), so that
    the case files never run against a stale Exec module."""
    targets = []
    for m in re.finditer(r"From\s+(LV|LVGen)\s+Require\s+Import\s+([^.]*(?:\.[A-Za-z_][\w']*)*(?:\s+[A-Za-z_][\w'.]*)*)\s*\.", imports):
        root = "theories" if m.group(1) == "LV" else "gen"
        for mod in m.group(2).split():
            t = os.path.join(root, *mod.split(".")) + ".vo"
            if t not in _BUILT and os.path.exists(os.path.join(env.COQ, t[:-1])):
                targets.append(t)
    if not targets:
        return
    from . import proofs
    with proofs.lock():
        if not os.path.exists(os.path.join(env.COQ, "Makefile")):
            return
        p = subprocess.run(["timeout", "3000", "make", "-j%d" % env.JOBS] + targets, cwd=env.COQ,
                           capture_output=True, text=True)
    if p.returncode == 0:
        _BUILT.update(targets)
    # on failure the shard compilation below reports the error (fail closed)


def eval_cases(d, name, imports, case_type, code_fn, cases, shard=300, timeout=900, extra=""):
    """cases: list of Gallina literals of type case_type.  Returns a dict
    index -> code for the cases whose code is not 0.  Raises CoqError if a
    shard does not compile (a broken model is a broken tie, not a pass)."""
    ensure_built(imports)
    files = []
    for k in range(0, len(cases), shard):
        path = os.path.join(d, "%s_%04d.v" % (name, k // shard))
        with open(path, "w") as f:
            f.write(PRELUDE)
            f.write(imports + "\n" + extra + "\n")
            f.write("Definition cases : list (%s) := [\n" % case_type)
            f.write(";\n".join(cases[k:k + shard]))
            f.write("\n].\n")
            f.write("Open Scope nat_scope.\nEval vm_compute in (bad (%s) cases).\n" % code_fn)
        files.append((k, path))
    badmap = {}

    def work(item):
        k, path = item
        rc, out, err, dt = coqc_file(path, timeout)
        if rc != 0:
            raise CoqError("coqc failed on %s (rc=%s): %s" % (path, rc, (err or out)[-2000:]))
        return k, parse_bad(out)

    with ThreadPoolExecutor(max_workers=env.JOBS) as ex:
        for k, bad in ex.map(work, files):
            for i, code in bad:
                badmap[k + i] = code
    return badmap


def eval_expr(d, name, imports, expr, timeout=300):
    """Print the vm_compute value of one expression (used for replay files)."""
    path = os.path.join(d, name + ".v")
    with open(path, "w") as f:
        f.write(PRELUDE + imports + "\nEval vm_compute in (%s).\n" % expr)
    rc, out, err, dt = coqc_file(path, timeout)
    if rc != 0:
        return "coqc failed: " + (err or out)[-1500:]
    return out.strip()
