"""Evaluate correspondence cases inside Coq (vm_compute), in parallel shards."""
import os
import re
import shutil
import subprocess
import time
from concurrent.futures import ThreadPoolExecutor

from . import env

COQC = ["coqc", "-Q", os.path.join(env.COQ, "theories"), "LV", "-Q", os.path.join(env.COQ, "gen"), "LVGen",
        "-w", "-notation-overridden,-deprecated-hint-without-locality,-deprecated-instance-without-locality"]

PRELUDE = """From Coq Require Import QArith ZArith List Bool String.
Import ListNotations.
"""


class CoqError(Exception):
    pass


def rundir(prop):
    """A scratch directory for this process (concurrent runs of the same check do not disturb each
    other); directories left by processes that no longer exist are removed."""
    base = os.path.join(env.BUILD, "run")
    os.makedirs(base, exist_ok=True)
    for name in os.listdir(base):
        if name == prop or name.startswith(prop + "."):
            pid = name.rsplit(".", 1)[-1]
            if pid.isdigit() and os.path.exists("/proc/%s" % pid) and int(pid) != os.getpid():
                continue
            shutil.rmtree(os.path.join(base, name), ignore_errors=True)
    d = os.path.join(base, "%s.%d" % (prop, os.getpid()))
    os.makedirs(d, exist_ok=True)
    return d


def coqc_file(path, timeout=600):
    t0 = time.time()
    p = subprocess.run(["timeout", str(timeout)] + COQC + ["-noglob", path], capture_output=True, text=True,
                       cwd=os.path.dirname(path))
    return p.returncode, p.stdout, p.stderr, time.time() - t0


_PAIR = re.compile(r"\((\d+),\s*(\d+)\)")


def parse_bad(out):
    """Parse the printed value of `Eval vm_compute in (bad f cases)`."""
    m = re.search(r"=\s*(\[.*?\])\s*:\s*list \(nat \* nat\)", out, re.S)
    if not m:
        raise CoqError("cannot parse Coq output: %r" % out[:500])
    body = re.sub(r"\s+|%nat", "", m.group(1))
    if not re.fullmatch(r"\[(\(\d+,\d+\)(;\(\d+,\d+\))*)?\]", body):
        raise CoqError("unexpected shape of Coq output: %r" % body[:500])
    return [(int(a), int(c)) for a, c in _PAIR.findall(body)]


def eval_cases(d, name, imports, case_type, code_fn, cases, shard=300, timeout=900, extra=""):
    """cases: list of Gallina literals of type case_type.  Returns a dict
    index -> code for the cases whose code is not 0.  Raises CoqError if a
    shard does not compile (a broken model is a broken tie, not a pass)."""
    files = []
    for k in range(0, len(cases), shard):
        path = os.path.join(d, "%s_%04d.v" % (name, k // shard))
        with open(path, "w") as f:
            f.write(PRELUDE)
            f.write(imports + "\n" + extra + "\n")
            f.write("Definition cases : list (%s) := [\n" % case_type)
            f.write(";\n".join(cases[k:k + shard]))
            f.write("\n].\n")
            f.write("Open Scope nat_scope.\nEval vm_compute in (bad (%s) cases).\n" % code_fn)
        files.append((k, path))
    badmap = {}

    def work(item):
        k, path = item
        rc, out, err, dt = coqc_file(path, timeout)
        if rc != 0:
            raise CoqError("coqc failed on %s (rc=%s): %s" % (path, rc, (err or out)[-2000:]))
        return k, parse_bad(out)

    with ThreadPoolExecutor(max_workers=env.JOBS) as ex:
        for k, bad in ex.map(work, files):
            for i, code in bad:
                badmap[k + i] = code
    return badmap


def eval_expr(d, name, imports, expr, timeout=300):
    """Print the vm_compute value of one expression (used for replay files)."""
    path = os.path.join(d, name + ".v")
    with open(path, "w") as f:
        f.write(PRELUDE + imports + "\nEval vm_compute in (%s).\n" % expr)
    rc, out, err, dt = coqc_file(path, timeout)
    if rc != 0:
        return "coqc failed: " + (err or out)[-1500:]
    return out.strip()
