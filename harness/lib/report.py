"""Evidence files, replay files, VIOLATION / KNOWN-FINDING lines."""
import json
import os
import time

from . import env

KERNEL = "Coq 8.16.1 kernel (coqc, full .vo build; vm_compute used for finite table obligations and for " \
         "evaluating the model on correspondence cases; native_compute not used)"


def known_findings(prop):
    p = os.path.join(env.VERIF, "known_findings.json")
    if not os.path.exists(p):
        return []
    return [e for e in json.load(open(p)).get("findings", []) if e.get("property") == prop]


class Run:
    def __init__(self, prop, tier, seed):
        self.prop, self.tier, self.seed = prop, tier, seed
        self.t0 = time.time()
        self.violations = []      # (replay_path, no_input)
        self.known = []
        self._known_counts = {}
        self.coverage = {"evaluations": 0, "distinct_nontrivial": 0, "rule": "", "samples": [],
                         "obligations": 0, "discharged": 0, "checker_cmd": "", "trusted_base": [KERNEL]}
        self.assumptions = []
        self._n = 0

    # ------------------------------------------------------------------
    def replay_path(self):
        d = os.path.join(env.BUILD, "replays")
        os.makedirs(d, exist_ok=True)
        self._n += 1
        # the pid keeps concurrent runs of the same check (e.g. against different VERIF_REPOs) apart
        return os.path.join(d, "%s-%s-%d-p%d-%d.json" % (self.prop, self.tier, self.seed, os.getpid(), self._n))

    def violation(self, replay, no_input=False):
        """replay: JSON-serialisable description (failing input, or the theorem /
        correspondence that no longer checks)."""
        path = self.replay_path()
        replay = dict(replay)
        replay.setdefault("property", self.prop)
        replay["no_failing_input_found"] = bool(no_input)
        with open(path, "w") as f:
            json.dump(replay, f, indent=1, default=str, ensure_ascii=False)
        self.violations.append((path, no_input))
        print("VIOLATION property=%s replay=%s%s" % (self.prop, path, " no-failing-input-found" if no_input else ""),
              flush=True)

    def known_finding(self, what, n=1):
        """Record n occurrences of a finding listed in known_findings.json; one KNOWN-FINDING line per
        finding is printed by finish()."""
        self._known_counts[what] = self._known_counts.get(what, 0) + n

    def proofs(self, res):
        """Record the result of proofs.check_property; report if broken."""
        c = self.coverage
        c["obligations"] = res["obligations"]
        c["discharged"] = res["discharged"]
        c["checker_cmd"] = "make -C coq theories/Props/%s.vo && coqc theories/Props/%s.v (Print Assumptions)" % (
            self.prop, self.prop)
        c["theorems"] = [{"name": n, "assumptions": a} for n, a in res["theorems"]]
        if res["axioms"]:
            c["trusted_base"].append("standard-library axioms reported by Print Assumptions: " +
                                     ", ".join(res["axioms"]))
        else:
            c["trusted_base"].append("Print Assumptions: every property theorem is closed under the global context")
        return res["ok"]

    def finish(self):
        for what, n in self._known_counts.items():
            self.known.append("%s [%d case(s) in this run]" % (what, n))
            print("KNOWN-FINDING: property=%s %s [%d case(s) in this run]" % (self.prop, what, n), flush=True)
        c = self.coverage
        ev = {"property_id": self.prop, "tier": self.tier, "seed": self.seed, "level": "proof",
              "coverage": c, "assumptions": self.assumptions, "wall_s": round(time.time() - self.t0, 2),
              "violations": len(self.violations), "known_findings": self.known}
        os.makedirs(env.EVIDENCE, exist_ok=True)
        with open(os.path.join(env.EVIDENCE, self.prop + ".json"), "w") as f:
            json.dump(ev, f, indent=1, default=str, ensure_ascii=False)
        return 1 if self.violations else 0
