"""Paths and environment shared by all checks."""
import os
import sys

VERIF = os.path.dirname(os.path.dirname(os.path.dirname(os.path.abspath(__file__))))
REPO = os.environ.get("VERIF_REPO", "/repo")
SRC = os.path.join(REPO, "src")
COQ = os.path.join(VERIF, "coq")
BUILD = os.path.join(VERIF, "build")
# evidence/<id>.json describes runs against /repo; a run against another tree (VERIF_REPO = a scratch worktree
# carrying a seeded change) writes its evidence under build/ so that it never replaces the committed file
EVIDENCE = (os.path.join(VERIF, "evidence") if os.path.realpath(REPO) == "/repo"
            else os.path.join(VERIF, "build", "evidence-" + os.path.basename(os.path.normpath(REPO))))
PY = "/venv/bin/python"
JOBS = int(os.environ.get("VERIF_JOBS", "16"))


_CACHE = None


def fresh_cache():
    """A private, initially EMPTY lingpy cache directory for this process: lingpy pickles its compiled
    sound-class models under $XDG_CACHE_HOME and recompiles only when a pickle is missing, so a re-used
    cache would hide edits of the shipped data files (converters, matrices) from the checks.  Directories of
    processes that no longer exist are removed."""
    global _CACHE
    if _CACHE is None:
        import atexit
        import shutil
        base = os.path.join(BUILD, "cache")
        os.makedirs(base, exist_ok=True)
        for name in os.listdir(base):
            pid = name.split(".")[-1]
            if pid.isdigit() and not os.path.exists("/proc/%s" % pid):
                shutil.rmtree(os.path.join(base, name), ignore_errors=True)
        _CACHE = os.path.join(base, "xdg.%d" % os.getpid())
        shutil.rmtree(_CACHE, ignore_errors=True)
        os.makedirs(_CACHE)
        atexit.register(lambda: shutil.rmtree(_CACHE, ignore_errors=True))
    return _CACHE


def use_repo():
    """Make `import lingpy` resolve to the current working tree of /repo, with a
    private cache directory (so checks never touch the user's cache)."""
    cache = fresh_cache()
    os.environ["XDG_CACHE_HOME"] = cache
    if SRC in sys.path:
        sys.path.remove(SRC)
    sys.path.insert(0, SRC)
    import logging
    # the first import with an empty cache compiles the models and logs every
    # converter line to stderr: silence fd 2 for the duration of the import
    sys.stderr.flush()
    saved = os.dup(2)
    devnull = os.open(os.devnull, os.O_WRONLY)
    os.dup2(devnull, 2)
    try:
        import lingpy  # noqa
    finally:
        sys.stderr.flush()
        os.dup2(saved, 2)
        os.close(devnull)
        os.close(saved)
    assert os.path.abspath(lingpy.__file__).startswith(os.path.abspath(SRC)), lingpy.__file__
    logging.getLogger("lingpy").setLevel(logging.CRITICAL)
    return lingpy


def subprocess_env(hashseed="0", cache=None):
    env = dict(os.environ)
    env["PYTHONPATH"] = SRC
    env["PYTHONHASHSEED"] = str(hashseed)
    env["XDG_CACHE_HOME"] = cache or fresh_cache()
    env["PYTHONDONTWRITEBYTECODE"] = "1"
    return env
