"""Generic correspondence driver: implementation vs. model-in-Coq on a stream of cases."""
import collections
import json
import time
import traceback

from . import coqrun


class Skip(Exception):
    """Raised by a component's run_impl for an outcome that is no result at all (e.g. a RecursionError under a
    deliberately lowered recursion limit): the case is counted and left out, never reported."""


def run_stream(run, comp, cases, rundir, name, case_type, code_fn, prop_bits, corr_bits=(0,),
               shrink=True, stream_label=None, max_report=3, shard=300, known=None, search=None):
    """run: report.Run; comp: component module with run_impl/render/BITS/nontrivial/jsonable
    (optionally shrink(case) -> iterable of smaller cases).
    prop_bits: checker bits whose failure on an implementation output is a failing input for
    this property; corr_bits: bits that mean "model and implementation disagree".
    Returns stats dict."""
    label = stream_label or name
    t0 = time.time()
    rendered, kept, results = [], [], []
    stats = collections.Counter()
    distinct = set()
    impl_errors = []
    for case in cases:
        try:
            res = comp.run_impl(case)
        except Skip as e:
            stats["skipped: %s" % e] += 1
            continue
        except Exception as e:  # the implementation raised on a valid input
            impl_errors.append((case, "%s: %s" % (type(e).__name__, e), traceback.format_exc()[-1500:]))
            stats["impl_raised"] += 1
            continue
        kept.append(case)
        results.append(res)
        rendered.append(comp.render(case, res))
        key = json.dumps(comp.jsonable(case), sort_keys=True, default=str)
        if comp.nontrivial(case, res) and key not in distinct:
            distinct.add(key)
        for k in getattr(comp, "classify", lambda c, r: [])(case, res):
            stats[k] += 1
    badmap = coqrun.eval_cases(rundir, name, comp.IMPORTS, case_type, code_fn, rendered, shard=shard)
    n_prop = n_corr = 0
    for case, err, tb in impl_errors[:max_report]:
        run.violation({"stream": label, "kind": "implementation raised on a valid input", "error": err,
                       "traceback": tb, "case": comp.jsonable(case)})
    n_known, known_example = {}, {}

    def _is(code, which):
        return any(code >> k & 1 for k in which)
    # failing inputs (a verified checker rejects an implementation output) are reported first;
    # correspondence-only disagreements are reported only when no failing input was found
    order = [i for i in sorted(badmap) if _is(badmap[i], prop_bits)]
    order += [i for i in sorted(badmap) if not _is(badmap[i], prop_bits) and _is(badmap[i], corr_bits)]
    # failing-input search: when model and implementation disagree but no checker of this property rejects an
    # output of the stream, variants of the disagreeing cases (search(case) -> cases) are run through the
    # implementation and the verified checkers; a rejected variant is a failing input for the property
    if search is not None and order and not any(_is(badmap[i], prop_bits) for i in order):
        cands = []
        for idx in order[:3]:
            for c in search(kept[idx]):
                try:
                    cands.append((c, comp.run_impl(c)))
                except Exception:
                    continue
                if len(cands) >= 600:
                    break
        if cands:
            bm = coqrun.eval_cases(rundir, name + "_search", comp.IMPORTS, case_type, code_fn,
                                   [comp.render(c, r) for c, r in cands], shard=shard)
            base = len(kept)
            for i in sorted(bm):
                if _is(bm[i], prop_bits):
                    kept.append(cands[i][0]); results.append(cands[i][1])
                    badmap[base] = bm[i]
                    base += 1
            order = [i for i in sorted(badmap) if _is(badmap[i], prop_bits)] + order
            stats["search_candidates"] += len(cands)
    for idx in order:
        code = badmap[idx]
        bits = [k for k in range(16) if code >> k & 1]
        case, res = kept[idx], results[idx]
        is_prop = _is(code, prop_bits)
        if is_prop and known is not None:
            # known(case, res, code) -> text of a finding listed in known_findings.json, or None
            what = known(case, res, code)
            if what:
                n_known[what] = n_known.get(what, 0) + 1
                if n_known[what] == 1:
                    known_example[what] = comp.jsonable(case, res)
                continue
        if is_prop:
            n_prop += 1
            if n_prop > max_report:
                continue
        else:
            n_corr += 1
            if n_corr > max_report or n_prop:
                continue
        if shrink and hasattr(comp, "shrink"):
            case, res, code = _shrink(comp, rundir, name, case_type, code_fn, case, res, code,
                                      prop_bits if is_prop else corr_bits)
            bits = [k for k in range(16) if code >> k & 1]
        rep = {"stream": label, "case": comp.jsonable(case, res), "code": code,
               "failed": [comp.BITS.get(k, "bit %d" % k) for k in bits],
               "model": getattr(comp, "model_expr", lambda c, r, d: None)(case, res, rundir)}
        if is_prop:
            rep["kind"] = "property checker rejects an implementation output"
            run.violation(rep, no_input=False)
        else:
            rep["kind"] = ("correspondence broken: the model no longer describes the implementation on this "
                           "case, but every verified checker of this property accepts the implementation's output")
            rep["no_longer_checks"] = "correspondence stream %s (model %s vs implementation)" % (label, code_fn)
            run.violation(rep, no_input=True)
    for what, n in n_known.items():
        run.known_finding(what, n)
        run.coverage.setdefault("known_finding_examples", []).append({"what": what, "case": known_example[what]})
    c = run.coverage
    c["evaluations"] += len(kept) + len(impl_errors)
    c["distinct_nontrivial"] += len(distinct)
    c.setdefault("streams", {})[label] = {
        "cases": len(kept), "distinct_nontrivial": len(distinct), "impl_raised": len(impl_errors),
        "disagreements": sum(1 for v in badmap.values() if any(v >> k & 1 for k in corr_bits)),
        "checker_rejections": sum(1 for v in badmap.values() if any(v >> k & 1 for k in prop_bits)),
        "distribution": dict(stats), "wall_s": round(time.time() - t0, 1)}
    for case, res in list(zip(kept, results))[:2]:
        if len(c["samples"]) < 6:
            c["samples"].append({"stream": label, "case": comp.jsonable(case, res)})
    return {"bad": badmap, "prop_fail": n_prop, "corr_fail": n_corr, "impl_errors": len(impl_errors),
            "n": len(kept)}


def _shrink(comp, rundir, name, case_type, code_fn, case, res, code, bits, rounds=25):
    want = [k for k in range(16) if code >> k & 1 and k in bits]
    for _ in range(rounds):
        cands = []
        for c in comp.shrink(case):
            try:
                r = comp.run_impl(c)
            except Exception:
                continue
            cands.append((c, r))
            if len(cands) >= 40:
                break
        if not cands:
            break
        badmap = coqrun.eval_cases(rundir, name + "_shrink", comp.IMPORTS, case_type, code_fn,
                                   [comp.render(c, r) for c, r in cands], shard=50)
        pick = None
        for i in sorted(badmap):
            if any(badmap[i] >> k & 1 for k in want):
                pick = i
                break
        if pick is None:
            break
        case, res = cands[pick]
        code = badmap[pick]
    return case, res, code
