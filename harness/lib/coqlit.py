"""Rendering of Python values as Gallina literals (type-directed, explicit)."""
from fractions import Fraction


def nat(n):
    n = int(n)
    assert 0 <= n < 5000, n
    return "%d%%nat" % n


def z(n):
    n = int(n)
    return "(%d)%%Z" % n


def q(x):
    """Exact rational literal.  Floats are converted exactly (Fraction(x))."""
    if isinstance(x, float):
        x = Fraction(x)
    x = Fraction(x)
    return "(%d#%d)%%Q" % (x.numerator, x.denominator)


def b(x):
    return "true" if x else "false"


def lst(items):
    return "[" + "; ".join(items) + "]"


def pair(*items):
    return "(" + ", ".join(items) + ")"


def opt(x, f):
    return "None" if x is None else "(Some %s)" % f(x)


def natlist(l):
    return lst([nat(i) for i in l])


def zlist(l):
    return lst([z(i) for i in l])


def qlist(l):
    return lst([q(i) for i in l])


def qmat(m):
    return lst([qlist(r) for r in m])


def zmat(m):
    return lst([zlist(r) for r in m])


def string(s):
    """Coq string literal (ASCII only)."""
    assert all(32 <= ord(c) < 127 for c in s), s
    return '"' + s.replace('"', '""') + '"%string'


def record(name, fields):
    """Build_<name> applied positionally."""
    return "(Build_%s %s)" % (name, " ".join(fields))
