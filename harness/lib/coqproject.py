"""Regenerate coq/_CoqProject from the .v files present under coq/theories and coq/gen."""
import os
import sys

HERE = os.path.dirname(os.path.abspath(__file__))
COQ = os.path.join(os.path.dirname(os.path.dirname(HERE)), "coq")
HEAD = """-Q theories LV
-Q gen LVGen
-arg -w -arg -notation-overridden,-deprecated-hint-without-locality,-deprecated-instance-without-locality
"""


def listing():
    out = []
    for top in ("theories", "gen"):
        for dp, dn, fns in os.walk(os.path.join(COQ, top)):
            dn.sort()
            for fn in sorted(fns):
                if fn.endswith(".v") and not fn.startswith("."):
                    out.append(os.path.relpath(os.path.join(dp, fn), COQ))
    return out


def regenerate():
    """Returns True if _CoqProject changed (the Makefile must then be regenerated)."""
    text = HEAD + "\n".join(listing()) + "\n"
    path = os.path.join(COQ, "_CoqProject")
    old = open(path).read() if os.path.exists(path) else None
    if old != text:
        with open(path, "w") as f:
            f.write(text)
        return True
    return False


if __name__ == "__main__":
    print("changed" if regenerate() else "unchanged")
