#!/bin/sh
# Build the whole Coq development from files on disk (offline).  Full .vo build.
# _CoqProject is regenerated from the files present, so adding a .v file needs no registration.
set -e
cd "$(dirname "$0")/coq"
mkdir -p gen ../build
(cd .. && PYTHONHASHSEED=0 /venv/bin/python -m harness.translate) || true
/venv/bin/python ../harness/lib/coqproject.py
coq_makefile -f _CoqProject -o Makefile >/dev/null
# -k: a file that fails does not stop the others; each check rebuilds and reports its own targets
timeout 3000 make -k -j16 2>&1 | tail -15 || true
