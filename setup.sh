#!/bin/sh
# Build the whole Coq development from files on disk (offline).  Full .vo build.
set -e
cd "$(dirname "$0")/coq"
mkdir -p gen ../build
coq_makefile -f _CoqProject -o Makefile >/dev/null
timeout 3000 make -j16 2>&1 | tail -5
