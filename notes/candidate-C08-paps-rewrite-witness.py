import sys, os, logging, tempfile
logging.disable(logging.CRITICAL)
from lingpy.compare.phylogeny import PhyBo
d = tempfile.mkdtemp()
rows = [("a","c0",1),("b","c0",1),("c","c0",1),("a","c1",2),("b","c1",2),("c","c1",2),("d","c1",3)]   # d has no word for c0
with open(os.path.join(d,"w.qlc"),"w") as f:
    f.write("ID\tDOCULECT\tCONCEPT\tIPA\tCOGID\n")
    for i,(l,c,k) in enumerate(rows,1): f.write("%d\t%s\t%s\tw\t%d\n"%(i,l,c,k))
def run(first_restriction):
    phy = PhyBo(os.path.join(d,"w.qlc"), tree="((a,b)ab,(c,d)cd)root;", output_dir=d)
    print(" paps before:", phy.paps['1:1'])
    if first_restriction:
        phy.get_GLS(mode='restriction', restriction=3, missing_data=0)
        print(" paps after restriction(missing_data=0):", phy.paps['1:1'])
    phy.get_GLS(mode='weighted', ratio=(1,1), gpl=4, missing_data=-1)
    print(" weighted, missing_data=-1:", phy.gls['w-1-1']['1:1'])
print("fresh object:"); run(False)
print("after a restriction run on the same object:"); run(True)
