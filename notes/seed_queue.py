#!/usr/bin/env python3
"""Evaluate wave-N (env SEED_WAVE, default 2) seeded changes as their directories become complete (4 metas), two at a time."""
import glob, json, os, subprocess, time, sys
W = os.environ.get("SEED_WAVE", "2")
done = set(sys.argv[1:])
extra = {"C05": ["C10"], "C10": ["C05", "C06"], "C06": ["C10"], "C03": ["C02"], "C02": [], "C08": ["C07"], "C07": ["C08"],
         "C12": ["C17"], "C17": ["C12"], "C04": ["C11"], "C11": ["C04"]}
running = {}
t0 = time.time()
while time.time() - t0 < 6 * 3600:
    for d in sorted(glob.glob("/tmp/mu%s-C*-out" % W)):
        pid = os.path.basename(d)[4:7]
        if pid in done or pid in running:
            continue
        metas = glob.glob(os.path.join(d, "m*/meta.json"))
        wt = "/tmp/mu%s-%s" % (W, pid)
        if len(metas) >= 4 and not os.path.exists(wt) and len(running) < 2:
            log = open("/tmp/lead/seed%s-%s.log" % (W, pid), "w")
            running[pid] = subprocess.Popen(["python3", "/verif/notes/seeded_eval.py", pid, d, pid] + extra.get(pid, []),
                                            stdout=log, stderr=subprocess.STDOUT, env=dict(os.environ, SEED_TAG="w" + W), cwd="/verif")
    for pid, p in list(running.items()):
        if p.poll() is not None:
            done.add(pid); del running[pid]
    if os.path.exists("/tmp/lead/stop_queue" + ("" if W == "2" else W)):
        break
    time.sleep(30)
