import json, sys
ps = {json.loads(l)['id']: json.loads(l) for l in open('/verif/properties.jsonl')}
pid = sys.argv[1]; n = int(sys.argv[2]) if len(sys.argv) > 2 else 4
p = ps[pid]
name = "mut-" + pid
anchors = "; ".join("%s (%s)" % (m["name"], m["where"]) for m in p["anchors"].get("mechanism", [])) + \
          " | files: " + ", ".join(p["anchors"]["files"])
print(open('/verif/notes/mutant_prompt.txt').read().format(
    wt="/tmp/" + name, name=name, n=n, pid=pid, title=p["title"], statement=p["statement"],
    quant=p["quantifier"]["text"], anchors=anchors))
