#!/bin/bash
# Final pass over the committed state (run from /verif, nothing else running):
#  1. every quick check against the unchanged /repo, 4 at a time -> fresh evidence/<id>.json; any VIOLATION is printed
#  2. evidence and MANIFEST validated against the schemas
#  3. forbidden-construct scan over ALL Coq sources (not only the per-property cones)
#  4. DESIGN section 10 re-assembled, MANIFEST regenerated
cd /verif || exit 1
export PYTHONHASHSEED=0
/venv/bin/python harness/manifest_gen.py > /dev/null
ids=$(python3 -c "import json;print(' '.join(c['property_id'] for c in json.load(open('MANIFEST.json'))['checks']))")
mkdir -p build/final
echo "$ids" | tr ' ' '\n' | VERIF_JOBS=4 xargs -P 4 -I{} sh -c './check {} quick > build/final/{}.out 2>&1; echo "{} exit=$?"'
echo "--- VIOLATION / KNOWN-FINDING lines"
grep -h "^VIOLATION\|^KNOWN-FINDING" build/final/*.out | cut -c1-160
echo "--- schema validation"
python3-vt - <<'EOF'
import json, glob, jsonschema
ev = json.load(open('/root/.vp/EVIDENCE.schema.json')); mf = json.load(open('/root/.vp/MANIFEST.schema.json'))
jsonschema.validate(json.load(open('/verif/MANIFEST.json')), mf)
n = 0
for f in sorted(glob.glob('/verif/evidence/C*.json')):
    jsonschema.validate(json.load(open(f)), ev); n += 1
print("MANIFEST ok; %d evidence files ok" % n)
EOF
echo "--- forbidden constructs (all sources)"
grep -rnE "\b(Admitted|admit|Axiom|Parameter|Conjecture|Unset Guard|bypass_check|native_compute|Admit Obligations)\b" coq/theories coq/gen --include=*.v | grep -v "^\s*(\*" | head
echo "--- assemble"
python3 notes/assemble_design.py
