#!/usr/bin/env python3
"""Re-run the quick checks against the seeded changes kept under /verif/seeded (the final pass after checks were
strengthened).  The confirmation of each change (lingpy suite = baseline, demo fails with / passes without) was done
when it was stored (notes/seeded_eval.py) and is not repeated; only meta.json["checks"] is refreshed.
usage: seeded_recheck.py [-j WORKERS] [ids or prefixes ...]     (default: all)
Each worker uses its own scratch worktree of /repo HEAD under /tmp and removes it at the end."""
import glob, json, os, re, subprocess, sys
from concurrent.futures import ThreadPoolExecutor

args = sys.argv[1:]
workers = 4
if args[:1] == ["-j"]:
    workers = int(args[1]); args = args[2:]
dirs = sorted(d for d in glob.glob("/verif/seeded/*") if os.path.exists(os.path.join(d, "meta.json")))
if args:
    dirs = [d for d in dirs if any(os.path.basename(d).startswith(a) for a in args)]
head = subprocess.run("git -C /repo rev-parse --short HEAD", shell=True, capture_output=True, text=True).stdout.strip()


def sh(cmd, **kw):
    return subprocess.run(cmd, shell=True, capture_output=True, text=True, **kw)


def work(job):
    k, ds = job
    wt = "/tmp/seedrc-%d-%d" % (os.getpid(), k)
    sh("git -C /repo worktree remove --force %s" % wt)
    sh("git -C /repo worktree add --detach %s HEAD" % wt)
    for d in ds:
        name = os.path.basename(d)
        meta = json.load(open(os.path.join(d, "meta.json")))
        sh("git -C %s checkout -- . && git -C %s clean -fdq" % (wt, wt))
        r = sh("git -C %s apply %s" % (wt, os.path.join(d, "patch.diff")))
        if r.returncode:
            meta["recheck"] = {"head": head, "note": "patch no longer applies at this HEAD (a later fix touches the same "
                               "lines); the outcome below is the one recorded when the change was stored"}
            json.dump(meta, open(os.path.join(d, "meta.json"), "w"), indent=1)
            print(name, "patch does not apply", flush=True)
            continue
        checks = list(meta.get("checks", {})) or [meta["property"]]
        res = {}
        if os.environ.get("RECHECK_OWN_ONLY"):       # re-run the property's own check only; keep the other outcomes
            res = {c: v for c, v in meta.get("checks", {}).items() if c != meta["property"]}
            checks = [meta["property"]]
        for c in checks:
            rr = sh("cd /verif && timeout 1500 ./check %s quick" % c,
                    env=dict(os.environ, VERIF_REPO=wt, VERIF_JOBS=os.environ.get("VERIF_JOBS", "4")))
            lines = [l for l in rr.stdout.splitlines() if l.startswith("VIOLATION")]
            res[c] = {"exit": rr.returncode, "violations": len(lines),
                      "with_failing_input": sum(1 for l in lines if "no-failing-input-found" not in l),
                      "first": lines[0] if lines else None}
            withinp = [l for l in lines if "no-failing-input-found" not in l] or lines
            if withinp:
                try:
                    rep = json.load(open(re.search(r"replay=(\S+)", withinp[0]).group(1)))
                    res[c]["replay_kind"] = rep.get("kind"); res[c]["replay_failed"] = rep.get("failed")
                    res[c]["replay_case"] = json.dumps(rep.get("case", rep.get("history")), default=str)[:700]
                except Exception as e:
                    res[c]["replay_kind"] = "unreadable: %s" % e
        meta["checks"] = res
        meta["recheck"] = {"head": head}
        json.dump(meta, open(os.path.join(d, "meta.json"), "w"), indent=1)
        print(name, {c: (v["exit"], v["violations"], v["with_failing_input"]) for c, v in res.items()}, flush=True)
    sh("git -C /repo worktree remove --force %s" % wt)


# changes to shipped data files make the translators regenerate coq/gen/*.v from the scratch worktree; those files are
# shared, so such changes are re-checked one at a time after the parallel phase
def touches_data(d):
    return "src/lingpy/data/" in open(os.path.join(d, "patch.diff"), errors="replace").read()


serial = [d for d in dirs if touches_data(d)]
par = [d for d in dirs if d not in serial]
jobs = [(k, par[k::workers]) for k in range(workers)]
with ThreadPoolExecutor(workers) as ex:
    list(ex.map(work, jobs))
work((0, serial))
