#!/usr/bin/env python3
"""Confirm a seeded change and run the checks against it.
usage: seeded_eval.py <PID> <src dir with m*/patch.diff, demo.py, meta.json> [check ids...]
For each m<i>: scratch worktree of /repo, apply patch, run the lingpy suite (must equal baseline),
demo.py must exit 1 with the patch and 0 without, then run ./check <id> quick with VERIF_REPO=<worktree>.
Confirmed changes are stored under /verif/seeded/<PID>-m<i>/ with the outcome in meta.json."""
import glob, json, os, re, shutil, subprocess, sys

pid, src = sys.argv[1], sys.argv[2]
checks = sys.argv[3:] or [pid]
tag = os.environ.get("SEED_TAG", "")
wt = "/tmp/seed-%s%s" % (pid, tag)
PY = "/venv/bin/python"


def sh(cmd, **kw):
    return subprocess.run(cmd, shell=True, capture_output=True, text=True, **kw)


sh("git -C /repo worktree remove --force %s" % wt)
sh("git -C /repo worktree add --detach %s HEAD" % wt)
env = dict(os.environ, PYTHONPATH=wt + "/src", XDG_CACHE_HOME="/tmp/seed-%s%s-cache" % (pid, tag), PYTHONHASHSEED="0")
for m in sorted(d for d in glob.glob(os.path.join(src, "m*")) if os.path.isdir(d)):
    name = "%s-%s%s" % (pid, (tag + "-") if tag else "", os.path.basename(m))
    meta = json.load(open(os.path.join(m, "meta.json")))
    out = {"property": pid, "summary": meta.get("summary"), "needs": meta.get("needs"), "files": meta.get("files")}
    shutil.rmtree("/tmp/seed-%s%s-cache" % (pid, tag), ignore_errors=True)    # a change may leave a damaged lingpy cache behind
    r = sh("git -C %s apply %s" % (wt, os.path.join(m, "patch.diff")))
    if r.returncode:
        out["confirmed"] = False; out["why"] = "patch does not apply: " + r.stderr[-300:]
    else:
        suite = sh("cd %s && %s -m pytest -q -p no:cacheprovider --timeout=900 --continue-on-collection-errors --no-cov 2>&1 | tail -1" % (wt, PY), env=env)
        out["suite"] = suite.stdout.strip()
        d1 = sh("%s %s" % (PY, os.path.join(m, "demo.py")), env=env, cwd=m)
        out["demo_with_change"] = d1.returncode
        out["demo_output"] = (d1.stdout + d1.stderr)[-600:]
        res = {}
        for c in checks:
            cenv = dict(os.environ, VERIF_REPO=wt)
            rr = sh("cd /verif && timeout 1500 ./check %s quick" % c, env=cenv)
            lines = [l for l in rr.stdout.splitlines() if l.startswith("VIOLATION")]
            res[c] = {"exit": rr.returncode, "violations": len(lines),
                      "with_failing_input": sum(1 for l in lines if "no-failing-input-found" not in l),
                      "first": lines[0] if lines else None}
            if lines:
                rp = re.search(r"replay=(\S+)", lines[0]).group(1)
                try:
                    rep = json.load(open(rp))
                    res[c]["replay_kind"] = rep.get("kind"); res[c]["replay_failed"] = rep.get("failed")
                    res[c]["replay_case"] = json.dumps(rep.get("case"), default=str)[:700]
                except Exception as e:
                    res[c]["replay_kind"] = "unreadable: %s" % e
        out["checks"] = res
        sh("git -C %s checkout -- . && git -C %s clean -fdq" % (wt, wt))
        d0 = sh("%s %s" % (PY, os.path.join(m, "demo.py")), env=env, cwd=m)
        out["demo_without_change"] = d0.returncode
        out["confirmed"] = bool(re.search(r"2 failed, 283 passed, 4 errors", out["suite"]) and d1.returncode == 1 and d0.returncode == 0)
    dst = os.path.join("/verif/seeded", name)
    if out.get("confirmed"):
        os.makedirs(dst, exist_ok=True)
        shutil.copy(os.path.join(m, "patch.diff"), dst); shutil.copy(os.path.join(m, "demo.py"), dst)
        out["ran"] = "scratch worktree of /repo HEAD; lingpy suite; demo.py with/without the change; ./check <id> quick with VERIF_REPO=<worktree>"
        json.dump(out, open(os.path.join(dst, "meta.json"), "w"), indent=1)
    print(json.dumps({name: {k: out.get(k) for k in ("confirmed", "suite", "demo_with_change", "demo_without_change")},
                      "checks": {c: (v["exit"], v["violations"], v["with_failing_input"]) for c, v in out.get("checks", {}).items()}}))
sh("git -C /repo worktree remove --force %s" % wt)
shutil.rmtree("/tmp/seed-%s%s-cache" % (pid, tag), ignore_errors=True)
