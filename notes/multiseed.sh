#!/bin/bash
# usage: notes/multiseed.sh "<props>" "<seeds>"  -> /tmp/lead/multiseed.log
cd /verif
for s in $2; do for p in $1; do echo "$p $s"; done; done | xargs -P 3 -L 1 bash -c 'out=$(VERIF_SEED=$1 VERIF_JOBS=5 timeout 1500 ./check $0 quick 2>&1 | grep -c VIOLATION); echo "$0 seed=$1 violations=$out"' >> /tmp/lead/multiseed.log 2>&1
echo DONE >> /tmp/lead/multiseed.log
