#!/usr/bin/env python3
"""Rebuild section 10 of DESIGN.md (between the markers) from notes/design/Cxx.md, known_findings.json
and seeded/*/meta.json.  Run by hand: python3 notes/assemble_design.py"""
import glob, json, os, re
HERE = os.path.dirname(os.path.dirname(os.path.abspath(__file__)))
BEGIN, END = "<!-- BEGIN SECTION 10 (generated) -->", "<!-- END SECTION 10 -->"
out = [BEGIN, "", "## 10. As built: per property (assembled from notes/design/*.md)", ""]
out += ["### 10.0 Defects found and what was done", "",
        "| Property | Status | Commit | What failed |", "|---|---|---|---|"]
for f in json.load(open(os.path.join(HERE, "known_findings.json")))["findings"]:
    out.append("| %s | %s | %s | %s |" % (f["property"], f["status"], f.get("commit", f.get("id", "")), f["what"].replace("|", "/")))
out += ["", "### 10.1 Seeded changes (written by independent sub-agents from the property text only) and which check catches them", "",
        "Each change compiles, passes lingpy's own suite (2 failed, 283 passed, 4 errors = baseline) and comes with a demo "
        "that fails with the change and passes without it; confirmed in a scratch worktree (notes/seeded_eval.py). "
        "`caught` = the quick check printed VIOLATION; `input` = with a concrete failing input (not only "
        "no-failing-input-found).", "",
        ]
# per-round statistics: outcome when a round was first evaluated (seeded/INITIAL.json) and now
init = {}
ip = os.path.join(HERE, "seeded", "INITIAL.json")
if os.path.exists(ip):
    init = json.load(open(ip))
rounds = {}
for m in sorted(glob.glob(os.path.join(HERE, "seeded", "*", "meta.json"))):
    d = json.load(open(m))
    name = os.path.basename(os.path.dirname(m))
    w = int(re.search(r"-w(\d)-", name).group(1)) if re.search(r"-w(\d)-", name) else 1
    own = d.get("checks", {}).get(name[:3], {})
    r = rounds.setdefault(w, {"n": 0, "first": 0, "now": 0, "now_input": 0, "missed_now": []})
    r["n"] += 1
    r["first"] += bool(init.get(name, {}).get("caught_by_own_check_at_first_evaluation"))
    if d.get("superseded") or d.get("not_exercisable"):
        r["missed_now"].append(name + " (see row)")
        continue
    r["now"] += bool(own.get("violations")); r["now_input"] += bool(own.get("with_failing_input"))
    if not own.get("violations"):
        r["missed_now"].append(name)
out += ["Rounds (each round = 4 changes per property by fresh agents that saw only the property text; later rounds were "
        "told which KINDS of change earlier rounds had produced). `first` = caught by the property's own quick check when the "
        "round was first evaluated (before the checks were strengthened on its misses), `now` = caught by the committed checks.", "",
        "| Round | changes | caught at first evaluation | caught now | with a concrete failing input now | still missed |",
        "|---|---|---|---|---|---|"]
for w in sorted(rounds):
    r = rounds[w]
    out.append("| %d | %d | %d | %d | %d | %s |" % (w, r["n"], r["first"], r["now"], r["now_input"], ", ".join(r["missed_now"]) or "-"))
out += ["", "| Seeded change | Summary | Needs | Check: caught / with failing input |", "|---|---|---|---|"]
for m in sorted(glob.glob(os.path.join(HERE, "seeded", "*", "meta.json"))):
    d = json.load(open(m))
    name = os.path.basename(os.path.dirname(m))
    res = "; ".join("%s: %s / %s" % (c, "caught" if v["violations"] else "MISSED", "input" if v["with_failing_input"] else "-")
                    for c, v in d.get("checks", {}).items())
    if d.get("superseded"):
        res = "no longer a violation: " + d["superseded"][:160]
    if d.get("not_exercisable"):
        res = "not exercisable: " + d["not_exercisable"][:200]
    out.append("| %s | %s | %s | %s |" % (name, (d.get("summary") or "").replace("|", "/")[:150],
                                          (d.get("needs") or "").replace("|", "/")[:120], res))
out.append("")
fa = os.path.join(HERE, "notes", "design", "false_alarms.md")
if os.path.exists(fa):
    out += [open(fa).read().strip(), ""]
for p in sorted(glob.glob(os.path.join(HERE, "notes", "design", "C*.md"))):
    text = open(p).read().strip()
    text = re.sub(r"^# ", "### 10." + os.path.basename(p)[1:3].lstrip("0") + "+1 ".replace("+1 ", " "), text, count=1, flags=re.M) if False else text
    text = re.sub(r"^(#+) ", lambda m: "#" * (len(m.group(1)) + 2) + " ", text, flags=re.M)
    out += [text, ""]
out.append(END)
path = os.path.join(HERE, "DESIGN.md")
s = open(path).read()
block = "\n".join(out)
if BEGIN in s:
    s = s[:s.index(BEGIN)] + block + s[s.index(END) + len(END):]
else:
    s = s.rstrip() + "\n\n---------------------------------------------------------------------------\n\n" + block + "\n"
open(path, "w").write(s)
print("section 10 rebuilt:", len(block), "chars")
